"""Per-property configuration of ./check (which tests, how many cases, which tier)."""

PROPS = {}


def prop(id, title, level, rule, runs, assumptions=None, exhaustive_note=None):
    PROPS[id] = dict(title=title, level=level, rule=rule, runs=runs, assumptions=assumptions or [],
                     exhaustive_note=exhaustive_note)


prop("C14", "topic filters and ServeMux dispatch", "exploration",
     "exhaustive: every (filter, topic) pair with filters = words of depth 1..4 over {'',a,b,+,#,a+,#b} plus the empty "
     "string and topics = non-empty words of depth 1..5 over {'',a,b}; random: rapid-generated filters/topics over a larger "
     "level alphabet (multi-byte runes, embedded wildcards, depth <= 12) and ServeMux registration lists. "
     "Non-trivial = the filter contains a wildcard or an empty level (pairs), or >= 2 registered handlers match one topic "
     "(mux); distinct = distinct (filter, topic) pairs / distinct mux cases (FNV-64 of the case).",
     [
         dict(tests="^TestVerifC14_Exhaustive$", exhaustive_once=True),
         dict(tests="^TestVerifC14_(Pair|Mux)$", checks_quick=20000, checks_thorough=200000, shards=8),
     ],
     assumptions=["topics are non-empty, contain no wildcard characters and do not start with '$' (the property's domain)",
                  "reference matcher refMatch/refValidFilter written from MQTT 3.1.1 section 4.7 is itself correct"],
     exhaustive_note="the bounded (filter, topic) space is enumerated completely in both tiers; the random part is sampling")

prop("C04", "inbound QoS 0/1/2 flows", "exploration",
     "rapid-generated sequences (0..40) of broker packets PUBLISH q0 / q1 (ids, dup) / q2 (ids, dup; an in-flight id is only "
     "re-used as a retransmission) / PUBREL (known, unknown, repeated) fed to a connected BaseClient with handler on / off / "
     "registered half-way, generated read chunking; the observed timeline of handler entries/exits and written acks must equal "
     "the reference automaton's. Non-trivial = the sequence releases a stored QoS2 message, retransmits a QoS2 PUBLISH or "
     "repeats a PUBREL; distinct = FNV-64 of the case JSON.",
     [dict(tests="^TestVerifC04_Flows$", checks_quick=6000, checks_thorough=60000, shards=12,
           fuzz=[dict(target="FuzzVerifC04", time="90s", workers=8)])],
     assumptions=["the broker re-uses an in-flight QoS2 packet id only to retransmit the same message (conforming broker)",
                  "a PUBCOMP in reply to an unknown PUBREL is permitted but not required"])

# ---------------------------------------------------------------------------------------------
# texts for MANIFEST.json (tools/gen_manifest.py)

NOT_APPLICABLE = {}
MANIFEST_TEXT = {}


def mtext(id, engine, technique, text, note, design_ref):
    MANIFEST_TEXT[id] = dict(engine=engine, technique=technique, text=text, note=note, design_ref=design_ref)


mtext("C14", "pure (reference matcher)",
      "exhaustive enumeration of a bounded filter x topic space + rapid property tests against an independent recursive matcher",
      "Every pair of the bounded space (2 801 filters x 362 topics) is compared with an independent definition of 4.7 validity and "
      "matching, so within that space the result is complete; beyond it (unicode, deep topics, ServeMux lists) it is random sampling.",
      "reference matcher correct; topics restricted to the property's domain (non-empty, no wildcards, no leading '$')",
      "DESIGN.md section 4 / C14")

mtext("C04", "E5 scripted peer + reference automaton",
      "rapid property test (generated packet sequences) + native fuzzing through rapid.MakeFuzz, oracle = reference automaton timeline",
      "Generated broker packet sequences are replayed against the real client and its timeline of hand-overs and acknowledgements "
      "is compared event by event with a reference automaton; sampling of the sequence space, no completeness claim.",
      "in-memory transport honours io.ReadWriteCloser; reference automaton follows the property statement",
      "DESIGN.md section 4 / C04")
