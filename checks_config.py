"""Per-property configuration of ./check (which tests, how many cases, which tier)."""

PROPS = {}


def prop(id, title, level, rule, runs, assumptions=None, exhaustive_note=None):
    PROPS[id] = dict(title=title, level=level, rule=rule, runs=runs, assumptions=assumptions or [],
                     exhaustive_note=exhaustive_note)


prop("C14", "topic filters and ServeMux dispatch", "exploration",
     "exhaustive: every (filter, topic) pair with filters = words of depth 1..4 over {'',a,b,+,#,a+,#b} plus the empty "
     "string and topics = non-empty words of depth 1..5 over {'',a,b}; random: rapid-generated filters/topics over a larger "
     "level alphabet (multi-byte runes, embedded wildcards, depth <= 12) and ServeMux registration lists. "
     "Non-trivial = the filter contains a wildcard or an empty level (pairs), or >= 2 registered handlers match one topic "
     "(mux); distinct = distinct (filter, topic) pairs / distinct mux cases (FNV-64 of the case).",
     [
         dict(tests="^TestVerifC14_Exhaustive$", exhaustive_once=True),
         dict(tests="^TestVerifC14_(Pair|Mux)$", checks_quick=20000, checks_thorough=200000, shards=8),
     ],
     assumptions=["topics are non-empty, contain no wildcard characters and do not start with '$' (the property's domain)",
                  "reference matcher refMatch/refValidFilter written from MQTT 3.1.1 section 4.7 is itself correct"],
     exhaustive_note="the bounded (filter, topic) space is enumerated completely in both tiers; the random part is sampling")

# ---------------------------------------------------------------------------------------------
# texts for MANIFEST.json (tools/gen_manifest.py)

NOT_APPLICABLE = {}
MANIFEST_TEXT = {}


def mtext(id, engine, technique, text, note, design_ref):
    MANIFEST_TEXT[id] = dict(engine=engine, technique=technique, text=text, note=note, design_ref=design_ref)


mtext("C14", "pure (reference matcher)",
      "exhaustive enumeration of a bounded filter x topic space + rapid property tests against an independent recursive matcher",
      "Every pair of the bounded space (2 801 filters x 362 topics) is compared with an independent definition of 4.7 validity and "
      "matching, so within that space the result is complete; beyond it (unicode, deep topics, ServeMux lists) it is random sampling.",
      "reference matcher correct; topics restricted to the property's domain (non-empty, no wildcards, no leading '$')",
      "DESIGN.md section 4 / C14")
