"""Per-property configuration of ./check (which tests, how many cases, which tier)."""

PROPS = {}


def prop(id, title, level, rule, runs, assumptions=None, exhaustive_note=None):
    PROPS[id] = dict(title=title, level=level, rule=rule, runs=runs, assumptions=assumptions or [],
                     exhaustive_note=exhaustive_note)


prop("C14", "topic filters and ServeMux dispatch", "exploration",
     "exhaustive: every (filter, topic) pair with filters = words of depth 1..4 over {'',a,b,+,#,a+,#b} plus the empty "
     "string and topics = non-empty words of depth 1..5 over {'',a,b}; random: rapid-generated filters/topics over a larger "
     "level alphabet (multi-byte runes, embedded wildcards, depth <= 12) and ServeMux registration lists. "
     "Non-trivial = the filter contains a wildcard or an empty level (pairs), or >= 2 registered handlers match one topic "
     "(mux); distinct = distinct (filter, topic) pairs / distinct mux cases (FNV-64 of the case).",
     [
         dict(tests="^TestVerifC14_Exhaustive$", exhaustive_once=True),
         dict(tests="^TestVerifC14_(Pair|Mux)$", checks_quick=20000, checks_thorough=200000, shards=8),
     ],
     assumptions=["topics are non-empty, contain no wildcard characters and do not start with '$' (the property's domain)",
                  "reference matcher refMatch/refValidFilter written from MQTT 3.1.1 section 4.7 is itself correct"],
     exhaustive_note="the bounded (filter, topic) space is enumerated completely in both tiers; the random part is sampling")

prop("C04", "inbound QoS 0/1/2 flows", "exploration",
     "rapid-generated sequences (0..40) of broker packets PUBLISH q0 / q1 (ids, dup) / q2 (ids, dup; an in-flight id is only "
     "re-used as a retransmission) / PUBREL (known, unknown, repeated) fed to a connected BaseClient with handler on / off / "
     "registered half-way, generated read chunking; the observed timeline of handler entries/exits and written acks must equal "
     "the reference automaton's. Non-trivial = the sequence releases a stored QoS2 message, retransmits a QoS2 PUBLISH or "
     "repeats a PUBREL; distinct = FNV-64 of the case JSON.",
     [dict(tests="^TestVerifC04_Flows$", checks_quick=6000, checks_thorough=60000, shards=12,
           fuzz=[dict(target="FuzzVerifC04", time="90s", workers=8)])],
     assumptions=["the broker re-uses an in-flight QoS2 packet id only to retransmit the same message (conforming broker)",
                  "a PUBCOMP in reply to an unknown PUBREL is permitted but not required"])

prop("C05", "emitted packets well-formed, fields as requested", "exploration",
     "length codec: remainingLength(n) against the 2.2.3 reference algorithm for EVERY n in 0..268435455 (both tiers) and "
     "readPacket on reference-encoded headers for boundary-biased / random n; API: rapid-generated Connect option sets and "
     "sequences (0..12) of Publish / Subscribe / Unsubscribe / Ping / inbound PUBLISH / rejected Publish, payload lengths "
     "constructed to land within +-2 of the 127/128, 16383/16384, 2097151/2097152 remaining-length boundaries; every byte "
     "written is strictly decoded by the independent reference codec and compared field by field with the request. "
     "Non-trivial = remaining length >= 128, or CONNECT with >= 2 optional fields, or >= 2 filters, or a multi-byte topic; "
     "distinct = FNV-64 of the case JSON (API cases) / the length (codec cases).",
     [dict(tests="^TestVerifC05_LenCodecAll$", exhaustive_once=True),
      dict(tests="^TestVerifC05_Len$", checks_quick=6000, checks_thorough=40000, shards=4),
      dict(tests="^TestVerifC05_Packets$", checks_quick=5000, checks_thorough=40000, shards=12)],
     assumptions=["inputs the API documents as panics are excluded (strings > 65535 bytes, packets > 268435455 bytes, QoS>2 in Subscribe)",
                  "password without user name, empty topics, wildcards in topic names, invalid UTF-8 are not generated",
                  "len(payload) == MaxPayloadLen is not generated (the code rejects it, the property only says 'over the maximum')"],
     exhaustive_note="only the length ENCODER is enumerated completely (all 268435456 lengths); everything else is sampling")

prop("C06", "arbitrary broker bytes never crash the client", "exploration",
     "three generated targets: (1) every packet parser and unpackString on (flag, contents) built from mutated well-formed bodies, "
     "short and random bytes; oracle = no panic, listed malformed classes rejected, accepted input decoded as the reference does; "
     "(2) readPacket on constructed headers (1..12 length bytes, terminated or not, hostile constants, valid lengths) through a "
     "counting reader; oracle = no panic, no single Read request > 268435455, agreement with the reference framing; (3) a connected "
     "client fed a well-formed prefix (C04 sequence), then one constructed malformed packet of each listed class, then junk; oracle = "
     "prefix timeline as in C04, Done() closes, Err() non-nil and equal to the Closed callback's error, documented sentinel found by "
     "errors.Is. A process death (panic in a library goroutine, runtime out-of-memory under an 8 GB address-space cap) is a violation "
     "with the case in flight as replay. Non-trivial = parser input with >= 1 content byte / header with >= 1 length byte / "
     ">= 1 valid packet before the malformed one; distinct = FNV-64 of the case JSON.",
     [dict(tests="^TestVerifC06_Parsers$", checks_quick=30000, checks_thorough=300000, shards=4,
           fuzz=[dict(target="FuzzVerifC06Parsers", time="90s", workers=6)]),
      dict(tests="^TestVerifC06_ReadPacket$", checks_quick=8000, checks_thorough=40000, shards=6, as_limit_gb=8,
           fuzz=[dict(target="FuzzVerifC06ReadPacket", time="90s", workers=4)]),
      dict(tests="^TestVerifC06_Connected$", checks_quick=4000, checks_thorough=40000, shards=6, as_limit_gb=8)],
     assumptions=["only the malformed classes listed in the property are asserted to end the link (e.g. an over-long PUBACK body is not)",
                  "ill-formed UTF-8 and encoded surrogates in topics are 'don't care' (accepting or rejecting both pass)"])

# ---------------------------------------------------------------------------------------------
# texts for MANIFEST.json (tools/gen_manifest.py)

NOT_APPLICABLE = {}
MANIFEST_TEXT = {}


def mtext(id, engine, technique, text, note, design_ref):
    MANIFEST_TEXT[id] = dict(engine=engine, technique=technique, text=text, note=note, design_ref=design_ref)


mtext("C14", "pure (reference matcher)",
      "exhaustive enumeration of a bounded filter x topic space + rapid property tests against an independent recursive matcher",
      "Every pair of the bounded space (2 801 filters x 362 topics) is compared with an independent definition of 4.7 validity and "
      "matching, so within that space the result is complete; beyond it (unicode, deep topics, ServeMux lists) it is random sampling.",
      "reference matcher correct; topics restricted to the property's domain (non-empty, no wildcards, no leading '$')",
      "DESIGN.md section 4 / C14")

mtext("C04", "E5 scripted peer + reference automaton",
      "rapid property test (generated packet sequences) + native fuzzing through rapid.MakeFuzz, oracle = reference automaton timeline",
      "Generated broker packet sequences are replayed against the real client and its timeline of hand-overs and acknowledgements "
      "is compared event by event with a reference automaton; sampling of the sequence space, no completeness claim.",
      "in-memory transport honours io.ReadWriteCloser; reference automaton follows the property statement",
      "DESIGN.md section 4 / C04")

mtext("C05", "E1 reference codec + E5 scripted peer",
      "exhaustive loop over all remaining-length values + rapid property tests, oracle = round trip through an independent strict MQTT 3.1.1 decoder/encoder",
      "The length encoder is compared with the specification's algorithm for all 268 435 456 lengths (complete); packets produced through "
      "the API are decoded by a second, strict implementation and compared field-by-field with the request for generated inputs (sampling, "
      "biased to every remaining-length boundary).",
      "reference codec correct (self-tested by round trip); excluded inputs listed in assumptions",
      "DESIGN.md section 4 / C05")

mtext("C06", "E1 reference codec + E5 scripted peer",
      "rapid property tests with constructed malformed inputs + native go fuzzing of the parsers and readPacket, oracle inside the target",
      "Sampling of the byte-string space with generators built to reach each malformed class named by the property, plus coverage-guided "
      "fuzzing in the thorough tier; shows crashes and missed rejections, cannot show their absence.",
      "process death is attributed to the case in flight (cur.json); 8 GB address-space cap turns absurd allocations into a visible failure",
      "DESIGN.md section 4 / C06")
