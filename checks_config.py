"""Per-property configuration of ./check (which tests, how many cases, which tier)."""

PROPS = {}


def prop(id, title, level, rule, runs, assumptions=None, exhaustive_note=None):
    PROPS[id] = dict(title=title, level=level, rule=rule, runs=runs, assumptions=assumptions or [],
                     exhaustive_note=exhaustive_note)


prop("C14", "topic filters and ServeMux dispatch", "exploration",
     "exhaustive: every (filter, topic) pair with filters = words of depth 1..4 over {'',a,b,+,#,a+,#b} plus the empty "
     "string and topics = non-empty words of depth 1..5 over {'',a,b}; random: rapid-generated filters/topics over a larger "
     "level alphabet (multi-byte runes, embedded wildcards, levels differing in case, known equal-length FNV-32 collision pairs, depth <= 12) and ServeMux registration lists. "
     "Non-trivial = the filter contains a wildcard or an empty level (pairs), or >= 2 registered handlers match one topic "
     "(mux); distinct = distinct (filter, topic) pairs / distinct mux cases (FNV-64 of the case). Topics up to 90 levels, muxes of up to 70 handlers, handlers that register further handlers or dispatch nested messages through their own mux.",
     [
         dict(tests="^TestVerifC14_Exhaustive$", exhaustive_once=True),
         dict(tests="^TestVerifC14_(Pair|Mux)$", checks_quick=20000, checks_thorough=600000, shards=8),
     ],
     assumptions=["topics are non-empty, contain no wildcard characters and do not start with '$' (the property's domain)",
                  "reference matcher refMatch/refValidFilter written from MQTT 3.1.1 section 4.7 is itself correct"],
     exhaustive_note="the bounded (filter, topic) space is enumerated completely in both tiers; the random part is sampling")

prop("C04", "inbound QoS 0/1/2 flows", "exploration",
     "rapid-generated sequences (0..40) of broker packets PUBLISH q0 / q1 (ids, dup) / q2 (ids, dup; an in-flight id is only "
     "re-used as a retransmission) / PUBREL (known, unknown, repeated) fed to a connected BaseClient with handler on / off / "
     "registered half-way, generated read chunking; the observed timeline of handler entries/exits and written acks must equal "
     "the reference automaton's. Non-trivial = the sequence releases a stored QoS2 message, retransmits a QoS2 PUBLISH or "
     "repeats a PUBREL; distinct = FNV-64 of the case JSON. Since rounds 3-5 the handler may overwrite every field of the message it owns, call back into the client, or be registered in the middle; outbound QoS2 publishes use the inbound id set; the first packets may sit in the CONNACK's buffer; the peer may half-close right after its last packet, the EOF arriving after or together with the last bytes.",
     [dict(tests="^TestVerifC04_Flows$", checks_quick=6000, checks_thorough=180000, shards=12,
           fuzz=[dict(target="FuzzVerifC04", time="180s", workers=8)]),
      dict(tests="^TestVerifC04_Flows$", race=True, checks_quick=800, checks_thorough=9000, shards=4)],
     assumptions=["the broker re-uses an in-flight QoS2 packet id only to retransmit the same message (conforming broker)",
                  "a PUBCOMP in reply to an unknown PUBREL is permitted but not required"])

prop("C05", "emitted packets well-formed, fields as requested", "exploration",
     "length codec: remainingLength(n) against the 2.2.3 reference algorithm for EVERY n in 0..268435455 (both tiers) and "
     "readPacket on reference-encoded headers for boundary-biased / random n; API: rapid-generated Connect option sets and "
     "sequences (0..12) of Publish / Subscribe / Unsubscribe / Ping / inbound PUBLISH / rejected Publish, payload lengths "
     "constructed to land within +-2 of the 127/128, 16383/16384, 2097151/2097152 remaining-length boundaries; every byte "
     "written is strictly decoded by the independent reference codec and compared field by field with the request. "
     "Non-trivial = remaining length >= 128, or CONNECT with >= 2 optional fields, or >= 2 filters, or a multi-byte topic; "
     "distinct = FNV-64 of the case JSON (API cases) / the length (codec cases). OverMax: bodies at and beyond the protocol maximum - PUBLISH with a payload of 268435455-s bytes (s = 0..20) and a topic of 0..12 bytes through Publish on a connected client over a counting transport: a body over the maximum must be refused (error or the documented panic) with nothing written, a body within it must go out with the minimal 4-byte length; and the length encoder alone must not return an encoding for any n > 268435455. ViaRetry also checks every CONNECT of the reconnecting client against the requested client id / clean session / keep-alive (0, 60, 65535) for ping intervals of 0 / 2 s / 90 s.",
     [dict(tests="^TestVerifC05_LenCodecAll$", exhaustive_once=True),
      dict(tests="^TestVerifC05_Len$", checks_quick=6000, checks_thorough=120000, shards=4),
      dict(tests="^TestVerifC05_Packets$", checks_quick=5000, checks_thorough=120000, shards=12),
      dict(tests="^TestVerifC05_ViaRetry$", checks_quick=1500, checks_thorough=24000, shards=6),
      dict(tests="^TestVerifC05_OverMax$", checks_quick=16, checks_thorough=150, shards=2, shards_quick=1)],
     assumptions=["inputs the API documents as panics are excluded (strings > 65535 bytes, packets > 268435455 bytes, QoS>2 in Subscribe)",
                  "password without user name, empty topics, wildcards in topic names, invalid UTF-8 are not generated",
                  "len(payload) == MaxPayloadLen is not generated (the code rejects it, the property only says 'over the maximum')"],
     exhaustive_note="only the length ENCODER is enumerated completely (all 268435456 lengths); everything else is sampling")

prop("C06", "arbitrary broker bytes never crash the client", "exploration",
     "three generated targets: (1) every packet parser and unpackString on (flag, contents) built from mutated well-formed bodies, "
     "short and random bytes; oracle = no panic, listed malformed classes rejected, accepted input decoded as the reference does; "
     "(2) readPacket on constructed headers (1..12 length bytes, terminated or not, hostile constants, valid lengths) through a "
     "counting reader; oracle = no panic, no single Read request > 268435455, agreement with the reference framing; (3) a connected "
     "client fed a well-formed prefix (C04 sequence), then one constructed malformed packet of each listed class, then junk; oracle = "
     "prefix timeline as in C04, Done() closes, Err() non-nil and equal to the Closed callback's error, documented sentinel found by "
     "errors.Is; (4) 1..4 requests in flight answered with well-formed but inconsistent acknowledgements (SUBACK with too many / "
     "too few / reserved codes, other ack kinds carrying a pending id), then close: no goroutine may panic and every call returns. "
     "A process death (panic in a library goroutine, runtime out-of-memory under an 8 GB address-space cap) is a violation "
     "with the case in flight as replay. Non-trivial = parser input with >= 1 content byte / header with >= 1 length byte / "
     ">= 1 valid packet before the malformed one; distinct = FNV-64 of the case JSON. The connected target also runs without a handler, with a handler registered in the middle of the prefix, with an application write parked inside Transport.Write when the malformed packet arrives, and with over-long length fields followed by silence instead of a close; AllocBound reads legal bodies of 1..255 MiB.",
     [dict(tests="^TestVerifC06_Parsers$", checks_quick=30000, checks_thorough=900000, shards=4,
           fuzz=[dict(target="FuzzVerifC06Parsers", time="180s", workers=6)]),
      dict(tests="^TestVerifC06_ReadPacket$", checks_quick=8000, checks_thorough=120000, shards=6, as_limit_gb=8,
           fuzz=[dict(target="FuzzVerifC06ReadPacket", time="180s", workers=4)]),
      dict(tests="^TestVerifC06_Connected$", checks_quick=4000, checks_thorough=120000, shards=6, as_limit_gb=8),
      dict(tests="^TestVerifC06_InFlight$", checks_quick=3000, checks_thorough=90000, shards=4),
      dict(tests="^TestVerifC06_ViaRetry$", checks_quick=1200, checks_thorough=15000, shards=6),
      dict(tests="^TestVerifC06_AllocBound$", checks_quick=6, checks_thorough=30, shards=1, as_limit_gb=8)],
     assumptions=["only the malformed classes listed in the property are asserted to end the link (e.g. an over-long PUBACK body is not)",
                  "ill-formed UTF-8 and encoded surrogates in topics are 'don't care' (accepting or rejecting both pass)"])

prop("C20", "private copies behind ServeMux / ServeAsync", "exploration",
     "rapid-generated cases: 1..3 messages x 1..6 handlers (filter, in-place / append / reslice / topic / flags / id mutation) "
     "dispatched through ServeMux, ServeAsync, ServeAsync{ServeMux} and ServeMux{ServeAsync...}; async handlers are held until the "
     "dispatcher returned and the caller overwrote its own message. Oracle: each handler's deep snapshot on entry equals the "
     "dispatched message in all six fields, the caller's message is unchanged after synchronous dispatch, no payload backing "
     "array is shared; also run under the race detector. Non-trivial = >= 2 matching handlers with >= 1 in-place payload "
     "mutation, or an async dispatch of a non-empty payload; distinct = FNV-64 of the case JSON. Payloads may have spare capacity, appended bytes are handler specific, ServeAsync may sit directly in front of a ServeMux, a handler may be an application type that embeds *ServeMux; every compared array is kept reachable.",
     [dict(tests="^TestVerifC20_Copies$", checks_quick=20000, checks_thorough=600000, shards=6),
      dict(tests="^TestVerifC20_Copies$", race=True, checks_quick=2000, checks_thorough=90000, shards=6)])

prop("C15", "packet identifiers non-zero and unique among outstanding requests", "exploration",
     "allocator: generated counter start values (biased to 0xFFF0..0x10010, 0xFFFFFFF0.., low 16 bits near wrap) x 1..16 "
     "goroutines x K ids each (G*K <= 65535, sometimes a full cycle), plus five sequential full cycles of 65535 allocations; "
     "wire: 1..16 concurrent Publish q1/q2 / Subscribe / Unsubscribe callers (some with caller-chosen ids) against a peer that "
     "withholds every acknowledgement until all requests are on the wire, 1..3 rounds; wrap: one request held unacknowledged "
     "while 65534 further requests complete. Oracle: ids non-zero and pairwise distinct among simultaneously outstanding "
     "requests, caller-chosen id unchanged; additionally (ViaRetry) E4 histories with cuts through the ReconnectClient: a "
     "caller-chosen id is unchanged on every emission (deferred and retransmitted ones included), no emitted id is 0. Wire also lets one "
     "QoS1 publish give up while everything is outstanding, re-issues it through its retry handle on the same connection and then makes a "
     "fresh request (its id must differ from all outstanding ones, the retransmitted one included). CarryOver: a publish interrupted on "
     "client 1 is retried on client 2 (counter start generated relative to the carried id) while 0..6 fresh requests are made there. Non-trivial = >= 2 goroutines/callers or the window crosses 0xFFFF->1; distinct = "
     "FNV-64 of the case JSON.",
     [dict(tests="^TestVerifC15_(Alloc|FullCycle)$", checks_quick=1500, checks_thorough=60000, shards=4),
      dict(tests="^TestVerifC15_Alloc$", race=True, checks_quick=300, checks_thorough=9000, shards=4),
      dict(tests="^TestVerifC15_Wire$", checks_quick=2500, checks_thorough=90000, shards=6),
      dict(tests="^TestVerifC15_Wire$", race=True, checks_quick=300, checks_thorough=9000, shards=2),
      dict(tests="^TestVerifC15_Wrap$", checks_quick=3, checks_thorough=36, shards=2),
      dict(tests="^TestVerifC15_ViaRetry$", checks_quick=1500, checks_thorough=24000, shards=4),
      dict(tests="^TestVerifC15_CarryOver$", checks_quick=400, checks_thorough=9000, shards=2, shards_quick=1)],
     assumptions=["caller-chosen identifiers are distinct from each other and outside the allocator's upcoming window (caller's responsibility)",
                  "known finding D12 (re-use at allocation distance >= 65535) is excluded by construction and reported as KNOWN-FINDING",
                  "known finding D18 (an identifier carried to another client by a retry handle collides with that client's allocator) is counted (excluded_known) and reported as KNOWN-FINDING; every other collision in those cases is a violation"])

prop("C07", "a request completes only on its own acknowledgement", "exploration",
     "rapid-generated cases: 1..8 concurrent callers (Publish q1/q2, Subscribe with 1..4 filters - one of them possibly repeating the call's first filter - and generated SUBACK code "
     "vectors, Unsubscribe) blocked against a peer that first collects all requests and then plays a generated script: a "
     "permutation of the real acks (PUBREC, later PUBCOMP for q2) interleaved with foreign items (unused ids of every ack kind, "
     "right id / wrong kind, duplicates of acks already sent, unsolicited CONNACK / PINGRESP), each foreign item followed by a "
     "sync marker; at most one wrong-length SUBACK, sent last. Oracle on the global event log: return(r) after sent(own final "
     "ack of r); PUBREL after PUBREC; nobody returns while its ack is unsent; results/codes as sent; ErrInvalidSubAck on a count "
     "mismatch. Non-trivial = >= 2 requests outstanding and >= 1 foreign item; distinct = FNV-64 of the case JSON. SlowAck: a request whose acknowledgement takes longer than two keep-alive periods (WithKeepAlive(1)) while other requests are made and completed: it must still complete on its own acknowledgement (cases of about 2.5 s). Publishes may carry identifiers of their own: below the counter (a re-used Message), or equal to the identifier of a concurrent Subscribe / Unsubscribe (different kinds do not share identifiers); an unsolicited packet may be glued to the next one.",
     [dict(tests="^TestVerifC07_SlowAck$", checks_quick=2, checks_thorough=12, shards=4, shards_quick=1),
      dict(tests="^TestVerifC07_AckRouting$", checks_quick=2500, checks_thorough=75000, shards=12),
      dict(tests="^TestVerifC07_AckRouting$", race=True, checks_quick=300, checks_thorough=9000, shards=4)])

prop("C19", "errors keep their cause and their retry handle", "exploration",
     "chains: rapid-generated error chains, leaf in {every exported sentinel, context.Canceled/DeadlineExceeded, io.EOF, "
     "io.ErrClosedPipe, fresh error, value-type error} under 0..8 layers from {wrapError, wrapErrorf, wrapErrorWithRetry, "
     "fmt %w, ConnectionError, opaque fmt %v, RequestTimeoutError, legacy struct with Err field}; oracle = set membership "
     "known from the construction (reachable through transparent layers => errors.Is true; nowhere in the chain => false; "
     "hidden nodes don't care), for all sentinels and all nodes as targets, errors.As for RequestTimeoutError, io.EOF/nil pass "
     "through; retry handles: request kind x (packet index, write failure | link closed | context cancelled) x 1..3 successive "
     "interruptions on fresh clients: the error implements ErrorWithRetry, errors.Is finds exactly the cause, Retry on a fresh "
     "client re-issues the same request (strictly decoded) and succeeds when acknowledged. Non-trivial = chain depth >= 2 with "
     ">= 1 library wrapper / every retry case; distinct = FNV-64 of the case JSON. The caller's context ends by cancel, by cancel with an explicit "
     "cause (context.WithCancelCause with io.EOF / an application error: Err() is still context.Canceled, the cause must not replace it) or by "
     "its deadline (a Context of the harness' own, expired exactly at the interruption point). ConnectCancel: ReconnectClient.Connect after "
     "0..4 failed attempts (refused CONNACK codes 1..5, dial errors incl. ones carrying a context error) whose context then ends: the returned "
     "error must satisfy errors.Is(err, ctx.Err()). RetryPing: RetryClient.Ping against a peer that never answers, ResponseTimeout 0 / never expiring / 5 ms, "
     "ended by the caller's cancel, cancel with cause, own deadline or by the response timeout: errors.Is finds exactly the caller's "
     "context error (never the other context sentinel), an expired response timeout is a RequestTimeoutError.",
     [dict(tests="^TestVerifC19_Chains$", checks_quick=30000, checks_thorough=1200000, shards=6),
      dict(tests="^TestVerifC19_Retry$", checks_quick=3000, checks_thorough=90000, shards=8),
      dict(tests="^TestVerifC19_ResponseTimeout$", checks_quick=500, checks_thorough=9000, shards=6),
      dict(tests="^TestVerifC19_ConnectCancel$", checks_quick=400, checks_thorough=6000, shards=4, shards_quick=1),
      dict(tests="^TestVerifC19_RetryPing$", checks_quick=150, checks_thorough=1500, shards=2, shards_quick=1)],
     assumptions=["error types outside the stated domain (pointer-to-non-struct errors, uncomparable value errors) are not generated",
                  "nodes hidden behind an opaque layer or reachable only via the reflection fallback are not asserted either way"])

prop("C13", "keep-alive detects a silent peer and only a silent peer", "fault_enumeration",
     "part 1: KeepAlive against a scripted Client: generated interval / timeout, 0..6 answered pings (with delays) followed by "
     "nothing / a ping never answered / a ping failing at once, and a parent-context cancel placed before, during or after a "
     "generated ping; oracle = reference classification of the return value (cancel > timeout > ping error), exact ping count, "
     "ticks never early, an unanswered ping is not given up before the timeout, and KeepAlive is still pinging after an "
     "all-answered script. Part 2: the real ReconnectClient with keep-alive on (interval 2..6 ms) against the broker model that goes "
     "silent after a generated packet of connection 1 (and 2): the client must close that transport itself and dial again (stuck "
     "detector, no upper time bound); negative class: every PINGREQ answered for >= 10 intervals with a far-away timeout: no close, "
     "no redial, no ErrPingTimeout. Non-trivial = >= 3 pings before the end, a cancel during a blocked ping, silence after >= 1 "
     "answered ping, or >= 3 answered pings in the negative class; distinct = FNV-64 of the case. KeepAliveOption: no ping interval given, it follows from WithKeepAlive(1): a peer silent from the CONNECT on (or behind the first request) must still be closed and replaced (cases of about 3 s).",
     [dict(tests="^TestVerifC13_KeepAliveOption$", checks_quick=2, checks_thorough=12, shards=4, shards_quick=1),
      dict(tests="^TestVerifC13_KeepAlive$", checks_quick=1200, checks_thorough=24000, shards=12),
      dict(tests="^TestVerifC13_SilentPeer$", checks_quick=500, checks_thorough=9000, shards=8)],
     assumptions=["the scripted Client decides the outcome of each ping, so machine load cannot turn 'answered' into 'late'",
                  "timers and tickers never fire early (monotonic clock)"])

E4RULE = 'Cases are rapid-generated (request history x fault plan x configuration) and run against the real ReconnectClient over an in-memory transport whose broker model processes every client packet synchronously; fault positions are structural (cut before/after the j-th packet or the n-th packet of a type on connection c, refused / absent CONNACK, dial error, held dialler = outage), so a case is a value that replays. '

ENUMRULE = (" Bounded-exhaustive leg (CutEnum): for fixed small workloads the tree of cut placements is explored depth first - a plan "
            "is a list of cuts, the i-th on connection i, before or after the j-th client packet (j=1 is CONNECT, so 'after 1' loses the "
            "CONNACK); children extend a plan at every packet position of the connection on which the parent run completed, so every "
            "reachable placement of up to D cuts at packet boundaries is run exactly once (D = 2..3 quick, 3..5 thorough; in some trees "
            "every level also branches into 'this attempt fails to dial' and 'this CONNECT is refused'; plans per workload and depth are "
            "in extra.enum_*), under the same oracle. Non-trivial there = at least one fault fired.")

prop("C01", "no accepted QoS>=1 publish / subscribe / unsubscribe is lost", "fault_enumeration",
     E4RULE + "C01: 1..14 submits (QoS0/1/2 publishes, subscribe, unsubscribe with unique marker filters) placed before Connect, while "
     "connected and during held outages, 0..6 faults piled on successive connections. Oracle at quiescence (queues empty): every "
     "request the API accepted has an acknowledgement (PUBACK/PUBCOMP/SUBACK/UNSUBACK) that the broker made readable on a "
     "connection not cut at that packet; a client idle for 3 s with work undone on a reachable broker is a violation (stuck "
     "detector), a budget hit while still progressing is inconclusive. Non-trivial = a fault fired while >= 1 accepted QoS>=1 "
     "request was unacknowledged, or a request was submitted before the first connection / during an outage; distinct = FNV-64 "
     "of the case JSON. The shared E4 generator also draws: DirectlyPublishQoS0, transport flavours, request-scoped submit contexts, callbacks (OnError, ConnState) that look at the client, a re-used Subscription buffer, a broker repeating PUBREC on resumption, dial errors carrying a context error; a runner blocked in a client call with nothing happening for 60 s ends as Stuck." + ENUMRULE,
     [dict(tests="^TestVerifC01_CutEnum$", exhaustive_once=True),
      dict(tests="^TestVerifC01_NoLoss$", checks_quick=2500, checks_thorough=36000, shards=12),
      dict(tests="^TestVerifC01_ReconnectRace$", checks_quick=2000, checks_thorough=30000, shards=8, shards_quick=2)],
     assumptions=["ResponseTimeout 0, keep-alive off, Disconnect never called, Transport.Write never returns io.EOF (the property's stated assumptions)",
                  "the broker eventually stays reachable: every fault fires at most once"])

prop("C02", "QoS 2 delivered onward exactly once across reconnects", "fault_enumeration",
     E4RULE + "C02: persistent session (cleanSession=false, session kept), receiver method A and B, QoS2-heavy histories, cuts biased to "
     "before/after PUBLISH, PUBREL (i.e. lost PUBREC / PUBCOMP) and CONNECT on successive connections. Oracle: (1) at quiescence "
     "each accepted QoS2 message is in the delivery log exactly once; (2) once PUBCOMP for a message was provably consumed (the "
     "client wrote another packet on that connection afterwards, or it was still up at quiescence) no PUBLISH with its tag and no "
     "PUBREL with its id is ever emitted again. Non-trivial = a cut fired between the first PUBLISH and the PUBCOMP of a QoS2 "
     "message; distinct = FNV-64 of the case JSON. A second generator (Timeouts) ends connections the other way the client knows: ResponseTimeout 5..20 ms and silently dropped PUBREC / PUBCOMP / PUBACK / SUBACK (the link stays up, the client closes it), alone or with cuts, under the same oracle." + ENUMRULE,
     [dict(tests="^TestVerifC02_CutEnum$", exhaustive_once=True),
      dict(tests="^TestVerifC02_ExactlyOnce$", checks_quick=3000, checks_thorough=45000, shards=16),
      dict(tests="^TestVerifC02_Timeouts$", checks_quick=800, checks_thorough=9000, shards=8, shards_quick=2)],
     assumptions=["broker follows MQTT-4.3.3 receiver rules and keeps session state", "one request outstanding at a time in the task goroutine (keep-alive off, DirectlyPublishQoS0 off)"])

prop("C03", "submission order on the wire, also when retransmitted", "fault_enumeration",
     E4RULE + "C03: one submitting goroutine, queued publishing mode. Oracle: per connection the PUBLISH packets of different messages "
     "are in submission order; over the run the first emissions of requests (PUBLISH/SUBSCRIBE/UNSUBSCRIBE, delivered or lost) "
     "are in submission order; first deliveries of QoS>=1 messages are in submission order. Non-trivial = >= 2 QoS>=1 requests "
     "pending at a fired fault; distinct = FNV-64 of the case JSON. One case in fifteen is a burst: a few requests are carried out, then 64..130 more are submitted during an outage." + ENUMRULE,
     [dict(tests="^TestVerifC03_CutEnum$", exhaustive_once=True),
      dict(tests="^TestVerifC03_Order$", checks_quick=2500, checks_thorough=36000, shards=16)],
     assumptions=["DirectlyPublishQoS0 off (the default mode the property is about)", "connections fail only by closing / refusal / dial errors"])

prop("C12", "retransmissions are faithful", "fault_enumeration",
     E4RULE + "C12: QoS1/QoS2 messages with random topic/payload/retain and caller-chosen or allocated ids, 1..3 retransmissions through "
     "cuts at every step; separately the base client's ErrorWithRetry handle driven through 1..5 interrupted fresh clients. Oracle "
     "over everything passed to Transport.Write (delivered or lost): first PUBLISH of a message DUP=0, later ones DUP=1 and "
     "identical in id/topic/payload/QoS/retain; QoS0 at most once; no PUBLISH after a PUBREL that was written successfully. "
     "Non-trivial = a message was emitted >= 2 times; distinct = FNV-64 of the case JSON. ManyRetransmissions: one QoS1/QoS2 message whose PUBLISH (or PUBACK) is lost on 257..320 consecutive connections." + ENUMRULE,
     [dict(tests="^TestVerifC12_ManyRetransmissions$", checks_quick=4, checks_thorough=40, shards=2, shards_quick=1),
      dict(tests="^TestVerifC12_CutEnum$", exhaustive_once=True),
      dict(tests="^TestVerifC12_Retransmit$", checks_quick=2500, checks_thorough=36000, shards=12),
      dict(tests="^TestVerifC12_RetryHandle$", checks_quick=2500, checks_thorough=75000, shards=4)],
     assumptions=["a PUBREL whose Write failed does not count as sent for the 'no PUBLISH after PUBREL' rule"])

prop("C08", "broker-side subscriptions converge to the app's calls", "fault_enumeration",
     E4RULE + "C08: subscription-heavy histories over a small filter alphabet (a, b, a/+, a/b, c/#, c/d, the case variants A and a/B, and long filters) so that repeats, QoS changes, "
     "multi-filter calls, duplicates inside one call and unsubscribes of absent filters are frequent, interleaved with publishes; "
     "cuts on CONNECT / SUBSCRIBE / UNSUBSCRIBE / PUBLISH and held outages; grid session kept / not kept x AlwaysResubscribe x "
     "cleanSession. Oracle: (1) at quiescence (race-free idle barrier) the broker table equals the left fold of the accepted "
     "calls; (2) on the first successful connection, and on any connection whose CONNACK said session present while "
     "AlwaysResubscribe is off, every SUBSCRIBE belongs to a request whose SUBACK had not yet been received. Non-trivial = a "
     "reconnect after an acknowledged subscribe together with a repeated filter, an unsubscribe or a request pending at the "
     "fault; distinct = FNV-64 of the case JSON. Fault kind loseSession makes a session-keeping broker lose the session once. A second generator (Timeouts) adds ResponseTimeout 5..20 ms and silently "
     "dropped SUBACK / UNSUBACK / PUBACK / PUBREC so that requests time out on a live connection (also inside a retry pass). "
     "A third generator (Restore) builds the restore path by construction: 2..7 subscriptions with filters of 2..250 bytes, a broker "
     "that loses the session on the 2nd (and sometimes 3rd) connection, the re-subscription pass cut at a chosen SUBSCRIBE before or "
     "after the broker saw it, further Subscribe/Unsubscribe/Publish calls meanwhile; non-trivial there = session lost and a restore "
     "SUBSCRIBE or its SUBACK lost. Rule (2) is a per-filter count: a SUBSCRIBE carrying f on a must-not-resubscribe connection needs "
     "fewer received SUBACKs for f than (calls naming f + session-less non-first CONNACKs so far). Convergence is not demanded when the "
     "broker dropped the session but that CONNACK never reached the client (undetectable in MQTT)." + ENUMRULE,
     [dict(tests="^TestVerifC08_CutEnum$", exhaustive_once=True),
      dict(tests="^TestVerifC08_Timeouts$", checks_quick=1000, checks_thorough=12000, shards=8),
      dict(tests="^TestVerifC08_Restore$", checks_quick=1500, checks_thorough=20000, shards=8),
      dict(tests="^TestVerifC08_Subscriptions$", checks_quick=3000, checks_thorough=45000, shards=16)],
     assumptions=["granted QoS equals requested QoS at the broker model", "quiescence is decided with the verif-tagged observation hook after the reconnect loop pushed its tasks"])

prop("C17", "the registered handler follows the connection", "fault_enumeration",
     E4RULE + "C17: Handle(h_k) calls placed before Connect, after it, between reconnects and concurrently with them; 0..5 "
     "reconnects by cuts; tagged inbound messages (q0/q1/q2) placed in the same buffer directly behind the CONNACK of generated "
     "connections and at settle points, each batch followed by a QoS1 sync marker. Oracle: every injected message on a connection "
     "whose marker was acknowledged reached the handler in force (the last Handle call that returned before the message became "
     "readable); handlers registered concurrently with the arrival are also acceptable; no other handler may receive it; QoS0 "
     "exactly once. Non-trivial = >= 1 judged message on a connection after the first; distinct = FNV-64 of the case JSON. "
     "Handle is also called from the ConnState(Active) callback, held up inside the client while the connection is replaced (three "
     "stall points: the old client's lock, the next client's lock, the statistics lock inside Connect), and a client that has stopped "
     "is a verdict. ManualSwitch: a RetryClient driven by hand switches to a new connection while the previous one stays open; "
     "messages arriving on either afterwards must reach the handler.",
     [dict(tests="^TestVerifC17_Handler$", checks_quick=3000, checks_thorough=45000, shards=12),
      dict(tests="^TestVerifC17_ManualSwitch$", checks_quick=200, checks_thorough=3000, shards=2, shards_quick=1)])

prop("C18", "with a response timeout a silent broker cannot stall the client", "fault_enumeration",
     E4RULE + "C18: ResponseTimeout 5..20 ms, keep-alive off; 1..3 dropAck faults (PUBACK, PUBREC, PUBCOMP, SUBACK, UNSUBACK processed by "
     "the broker but silently not sent, link stays up) on the connection of the first transmission or on the one where the request "
     "is being retransmitted, optionally combined with a cut. Oracle per drop (unless the broker cut that link first): OnError "
     "receives an error for which errors.As(**RequestTimeoutError) holds, the client closes that transport itself, a new dial "
     "follows, and at quiescence every accepted request is acknowledged; a client idle for 3 s on a live connection with the "
     "request unacknowledged is a violation. No upper time bound is asserted. Non-trivial = >= 1 acknowledgement was dropped; "
     "distinct = FNV-64 of the case JSON. One class has a peer that stops reading as well (fault stall: a packet is taken and never answered, later writes block) with the keep-alive as a second writer; one class assigns ResponseTimeout only after Connect returned.",
     [dict(tests="^TestVerifC18_ResponseTimeout$", checks_quick=1200, checks_thorough=18000, shards=16)])

prop("C09", "reconnect lifecycle", "fault_enumeration",
     "rapid-generated lifecycle cases against the real ReconnectClient: per dial attempt a scripted outcome from {dial error, "
     "CONNACK refused (1..5), CONNACK never sent (+WithTimeout), accepted then peer close / garbage / silence with keep-alive on, "
     "stays up}, 0..7 attempts, base 1..5 ms (300 ms for the waiting phase), max in {1,2,4,8} x base or below base; a stop event "
     "(Disconnect, or cancel of the first Connect's context) placed deterministically in a phase {dialling (held dialler), "
     "connecting (CONNACK withheld), connected, waiting to redial}; CONNECT options generated (clean session, keep-alive, will, "
     "credentials). Oracle: (1) every dial starts >= min(base*2^j, max) after the previous attempt ended (j = waits since the "
     "last accepting CONNACK; monotonic lower bound), (2) no transport handed out earlier is open at a DialContext call, (3) every "
     "connection starts with exactly one CONNECT whose decoded fields equal the options, (4) after the stop no dial that started "
     "later yields a transport, none starts once the loop goroutine is gone, Disconnect returns and the loop goroutine has "
     "exited, Connect reports the cancelled context, (5) a redial follows every unexpected end (stuck detector). Non-trivial = >= 2 "
     "consecutive failures followed by a success, or a stop in a phase other than connected; distinct = FNV-64 of the case JSON. Dial errors may carry a context error and may take 1.5..6 ms to fail; client ids: normal, empty, 300 bytes, non-ASCII; ping intervals of seconds must not change the CONNECT; refusing CONNACKs use codes 1..5 and reserved ones; Disconnect may be called from the message handler or with a context that has already ended; Connect's context may end inside the Active callback of the first successful connection (the connection must stay supervised).",
     [dict(tests="^TestVerifC09_Lifecycle$", checks_quick=120, checks_thorough=2100, shards=16, shards_quick=4)],
     assumptions=["the Dialer honours its context (like net.Dialer); the harness releases a held dial after the stop event",
                  "an attempt whose accepting CONNACK was followed at once by a link failure may count as success or failure (lower bound uses the smaller wait)",
                  "timers never fire early"])

prop("C16", "ConnState, Err() and Done() tell the truth", "fault_enumeration",
     "(i) one BaseClient against the scripted peer: CONNACK accepted / refused / malformed / never sent, optional healthy settle "
     "point, then 1..4 endings from {peer close, local Close, malformed packet, Disconnect} fired from separate goroutines with "
     "generated yields so that they race each other and Connect. Oracle from the per-client callback log: Active <= 1 and only "
     "after an accepting CONNACK; without Disconnect: Closed exactly once with a non-nil error equal to Err(); with Disconnect: "
     "Disconnected exactly once and no Closed after it; Done() open and Err() nil at the healthy settle point, Done() closed "
     "after every ending, Err() nil after a graceful Disconnect. (ii) connections managed by the ReconnectClient with keep-alive "
     "on (1..4 ms), 1..4 reconnects by cuts, a linger of >= 2 ping intervals so that goroutines of earlier connections get their "
     "chance, then samples: a healthy connection has Err()==nil and Done() open; after a graceful Disconnect of a healthy "
     "connection Err()==nil and Done() closed; per connection Active/Closed/Disconnected at most once, Closed with an error. "
     "Non-trivial = >= 2 racing endings or endings racing Connect (i); >= 2 managed connections with a sample (ii); distinct = "
     "FNV-64 of the case JSON. Endings include an inconsistent SUBACK and reserved CONNACK codes; in the reconnect leg the transports come in flavours (closure reported as net.ErrClosed, second Close failing, CloseWrite, slow Close) and the application's callbacks look at the client.",
     [dict(tests="^TestVerifC16_Base$", checks_quick=6000, checks_thorough=180000, shards=8),
      dict(tests="^TestVerifC16_Reconnect$", checks_quick=500, checks_thorough=12000, shards=8, shards_quick=2)],
     assumptions=["no order between Active and Closed is asserted (Connect can lose the race when the peer closes right after CONNACK)",
                  "'healthy' = no fault has been applied to that connection; once any ending was issued Err() is unconstrained until observed"])

prop("C11", "every blocking call returns on cancel or connection end", "fault_enumeration",
     "grid, enumerated completely in both tiers: call in {Connect, Publish q1, Publish q2, Subscribe, Unsubscribe, Ping, Disconnect} "
     "x step in {cause already present, request written and (first) answer withheld, q2 between PUBREC and PUBCOMP, blocked "
     "inside Transport.Write} x cause in {context cancel, context deadline, local Close, peer close, malformed packet}; plus "
     "rapid-generated combinations of 2..6 calls blocked at once under one cause, and Connect / Disconnect of the ReconnectClient "
     "x phase {dialling (held dialler), connecting (CONNACK withheld), waiting to redial} x {cancel, deadline}. Oracle: every call "
     "returns (20 s bound, goroutine dump on miss); context causes with the link up: errors.Is(err, ctx.Err()); link-end causes: "
     "non-nil error, Done() closed and no goroutine with a (*BaseClient).serve / Connect.func1 frame left. Non-trivial = every "
     "cell except Disconnect x cause-before-call; distinct = distinct cells + distinct combinations (FNV-64 of the case JSON). Causes include Disconnect (with a context of its own that ends after 50 ms, or - LiveCtx - never, against a peer that does not close on DISCONNECT) and contexts cancelled with a cause; the cause call itself is guarded (a Close that never returns is a verdict); reconnect grid phases also cover a dialler that ignores its context, a CONNECT write that blocks and an established connection with a 25 s ping interval; Liveness polls Done/Err and takes write locks while inbound QoS2 traffic flows.",
     [dict(tests="^TestVerifC11_Grid$", exhaustive_once=True),
      dict(tests="^TestVerifC11_Combo$", checks_quick=3000, checks_thorough=90000, shards=8),
      dict(tests="^TestVerifC11_Liveness$", checks_quick=60, checks_thorough=1500, shards=8, shards_quick=2),
      dict(tests="^TestVerifC11_ReconnectGrid$", checks_quick=300, checks_thorough=6000, shards=4)],
     assumptions=["requests are issued after Connect returned (a request overlapping an unfinished Connect waits for the connect lock by design)",
                  "a context cannot interrupt a blocked Transport.Write (left to the transport's deadlines): 'write' cells exist for link-end causes only",
                  "with the context finished before the call the answer is withheld too, so that success is not a legitimate outcome"],
     exhaustive_note="the (call, step, cause) grid of the base client is enumerated completely; combinations and reconnect phases are sampled")

prop("C10", "no data races, packets never interleave on the wire", "exploration",
     "rapid-generated concurrent programs, built with -race: 2..8 goroutines each running 1..8 calls from {Publish q0/q1/q2, "
     "Subscribe, Unsubscribe, Ping, Handle, Stats, Done, Err, Client} with generated yields, GOMAXPROCS in {2,4,16}, against (i) a "
     "BaseClient whose peer answers everything and sends 0..12 inbound QoS1/QoS2 messages meanwhile (so the reader goroutine "
     "writes acknowledgements concurrently), optionally closed under the callers' feet, and (ii) a ReconnectClient with keep-alive "
     "on while a background goroutine cuts the connection 1..4 times. The transport runs without a lock of its own and yields "
     "inside Write. Oracle: (1) Go race detector (halt_on_error): a report with a frame in the library's own sources is a "
     "violation, the case in flight is the replay; (2) no two Transport.Write calls overlap, the strict framer decodes the whole "
     "client->broker stream of every connection, self-describing payloads verify, first packet of every connection is CONNECT. "
     "Non-trivial = >= 2 library calls overlapped in time (measured with enter/exit counters) and, for (ii), >= 2 connections; "
     "distinct = FNV-64 of the case JSON. The reconnect variant also runs with DirectlyPublishQoS0; the base variant may have a concurrent Disconnect instead of Close, and 3 or 7 other, independent clients connecting at the same moment.",
     [dict(tests="^TestVerifC10_Base$", race=True, checks_quick=1500, checks_thorough=45000, shards=8),
      dict(tests="^TestVerifC10_Reconnect$", race=True, checks_quick=1500, checks_thorough=45000, shards=8, shards_quick=2)],
     assumptions=["schedules are sampled (generated yields, GOMAXPROCS, the transport's own yields); absence of races cannot be shown",
                  "concurrent Ping calls share one response slot by design, so their outcome is not asserted"])

# ---------------------------------------------------------------------------------------------
# texts for MANIFEST.json (tools/gen_manifest.py)

NOT_APPLICABLE = {}
MANIFEST_TEXT = {}


def mtext(id, engine, technique, text, note, design_ref):
    MANIFEST_TEXT[id] = dict(engine=engine, technique=technique, text=text, note=note, design_ref=design_ref)


mtext("C14", "pure (reference matcher)",
      "exhaustive enumeration of a bounded filter x topic space + rapid property tests against an independent recursive matcher",
      "Every pair of the bounded space (2 801 filters x 362 topics) is compared with an independent definition of 4.7 validity and "
      "matching, so within that space the result is complete; beyond it (unicode, deep topics, ServeMux lists) it is random sampling.",
      "reference matcher correct; topics restricted to the property's domain (non-empty, no wildcards, no leading '$')",
      "DESIGN.md section 4 / C14")

mtext("C04", "E5 scripted peer + reference automaton",
      "rapid property test (generated packet sequences) + native fuzzing through rapid.MakeFuzz, oracle = reference automaton timeline",
      "Generated broker packet sequences are replayed against the real client and its timeline of hand-overs and acknowledgements "
      "is compared event by event with a reference automaton; sampling of the sequence space, no completeness claim.",
      "in-memory transport honours io.ReadWriteCloser; reference automaton follows the property statement",
      "DESIGN.md section 4 / C04")

mtext("C05", "E1 reference codec + E5 scripted peer",
      "exhaustive loop over all remaining-length values + rapid property tests, oracle = round trip through an independent strict MQTT 3.1.1 decoder/encoder",
      "The length encoder is compared with the specification's algorithm for all 268 435 456 lengths (complete); packets produced through "
      "the API are decoded by a second, strict implementation and compared field-by-field with the request for generated inputs (sampling, "
      "biased to every remaining-length boundary).",
      "reference codec correct (self-tested by round trip); excluded inputs listed in assumptions",
      "DESIGN.md section 4 / C05")

mtext("C06", "E1 reference codec + E5 scripted peer",
      "rapid property tests with constructed malformed inputs + native go fuzzing of the parsers and readPacket, oracle inside the target",
      "Sampling of the byte-string space with generators built to reach each malformed class named by the property, plus coverage-guided "
      "fuzzing in the thorough tier; shows crashes and missed rejections, cannot show their absence.",
      "process death is attributed to the case in flight (cur.json); 8 GB address-space cap turns absurd allocations into a visible failure",
      "DESIGN.md section 4 / C06")

mtext("C20", "pure (handlers recording snapshots)",
      "rapid property test with mutating handlers, oracle = entry snapshot equals original + pointer inequality of payload arrays; race detector for the async path",
      "Generated sets of mutating handlers behind every dispatcher composition; sampling of inputs, with the schedule of async handlers "
      "forced by a gate so that late cloning is visible.",
      "handlers mutate only what they received; Go race detector for the asynchronous variants",
      "DESIGN.md section 4 / C20")

mtext("C15", "pure allocator + E5 scripted peer withholding acks",
      "rapid property tests (generated start values, goroutine counts, request mixes) with a set-distinctness oracle; race detector variant",
      "Sampling of start values / caller mixes with the oracle evaluated at a moment where all requests are provably outstanding; five "
      "complete 65535-allocation cycles per run. Concurrency is sampled, not enumerated.",
      "ids observed on the wire by the peer are the ids the client registered; D12 listed as known finding",
      "DESIGN.md section 4 / C15")

mtext("C07", "E5 scripted peer with ack script",
      "rapid property test (generated ack permutations and foreign acknowledgements), oracle = ordering invariant over one global event log",
      "Sampling of request mixes, answer orders and injected foreign acknowledgements; each case checks return-after-own-ack on a single "
      "timeline whose sequence numbers are taken before the ack bytes become readable, so the comparison cannot false-alarm.",
      "sync marker relies on the reader processing packets strictly in order",
      "DESIGN.md section 4 / C07")

mtext("C19", "pure chains + E5 scripted peer",
      "rapid property tests; oracle = reference reachability set of a constructed error chain / strict decoding of what Retry emits",
      "Generated chains and interruption sequences; membership oracle is exact for reachable and absent targets. Sampling, no completeness.",
      "fresh clients are independent in-memory transports",
      "DESIGN.md section 4 / C19")

mtext("C13", "scripted Client mock (part 1) + E4 broker model going silent (part 2)",
      "rapid property tests over sequences of ping outcomes / silence points, oracle = reference classification + lower-bound timing invariants",
      "Generated outcome sequences and cancel placements are checked against a reference classification; all timing assertions are "
      "lower bounds on a monotonic clock, so load cannot cause a false alarm. Sampling of the schedule space.",
      "mock Client mimics BaseClient.Ping's error wrapping for a finished context",
      "DESIGN.md section 4 / C13")

E4NOTE = "in-memory transport honours io.ReadWriteCloser; broker model is instantaneous (processes inside Write); liveness decided by a stuck detector (3 s of global silence), never by a timeout"
mtext("C01", "E4 history runner + E3 broker model",
      "rapid stateful/fault-injection property test; oracle = every accepted request acknowledged in the broker trace at quiescence + stuck detector",
      "Fault-plan sampling with structural cut points on the real client; each case is deterministic up to goroutine interleaving. Bounded "
      "liveness: reached quiescence, or provably idle with work undone. No completeness claim.", E4NOTE, "DESIGN.md section 4 / C01")
mtext("C02", "E4 history runner + E3 broker model (methods A and B)",
      "rapid fault-injection property test; oracle = delivery count per message == 1 and silence after a consumed PUBCOMP",
      "Sampling of cut sequences around the four packets of the QoS2 exchange on successive connections, for both receiver methods.",
      E4NOTE, "DESIGN.md section 4 / C02")
mtext("C03", "E4 history runner + E3 broker model",
      "rapid fault-injection property test; oracle = monotonic submission index on every connection, over first emissions and over first deliveries",
      "Sampling of histories and cut sequences from one submitting goroutine; every connection of a run is checked.", E4NOTE, "DESIGN.md section 4 / C03")
mtext("C12", "E4 history runner + E3 broker model; E5 for the retry handle",
      "rapid fault-injection property tests; oracle = invariant over all PUBLISH/PUBREL emissions of a message",
      "Sampling of messages and cut sequences; the oracle reads everything handed to Transport.Write, including writes that failed.",
      E4NOTE, "DESIGN.md section 4 / C12")

mtext("C08", "E4 history runner + E3 broker model",
      "rapid fault-injection property test; oracle = broker subscription table == fold of the calls, and no SUBSCRIBE of an acknowledged request where re-subscription is forbidden",
      "Sampling of Subscribe/Unsubscribe histories x cut placements x session configurations against the real client.", E4NOTE, "DESIGN.md section 4 / C08")

mtext("C17", "E4 history runner + E3 broker model injecting inbound traffic",
      "rapid fault-injection property test; oracle = each injected message is received by the handler in force according to the global event log",
      "Sampling of Handle placements x reconnects x injection points; 'in force' is derived from sequence numbers on one timeline, with the "
      "racing class accepted either way, so the oracle cannot false-alarm on schedules.", E4NOTE, "DESIGN.md section 4 / C17")

mtext("C18", "E4 history runner + E3 broker model dropping acknowledgements",
      "rapid fault-injection property test; oracle = RequestTimeoutError reported, link closed and redialled, request acknowledged later; stuck detector for 'waits indefinitely'",
      "Sampling over request kinds x exchange phase x connection (incl. the retransmitting one) on which the acknowledgement is dropped.", E4NOTE, "DESIGN.md section 4 / C18")

mtext("C09", "lifecycle runner on E3 broker model + gated dialer",
      "rapid property test over scripted attempt outcomes x stop phase; oracle = lower-bound timing invariant, transport hygiene, decoded CONNECT equality, no dial after stop",
      "Sampling of failure sequences and stop placements; stop phases are made deterministic with a gated dialer / withheld CONNACK, all timing assertions are lower bounds.",
      E4NOTE, "DESIGN.md section 4 / C09")

mtext("C16", "E5 scripted peer (racing endings) + E4 runner with keep-alive",
      "rapid property tests; oracle = small automaton over the per-connection callback log plus sampled Err()/Done() at healthy and ended points",
      "Sampling of ending combinations and schedules (generated yields); replays repeat a case 10-50 times because the races are schedule dependent.",
      E4NOTE, "DESIGN.md section 4 / C16")

mtext("C11", "E5 scripted peer stopping exchanges at a step; gated dialer for the reconnecting client",
      "exhaustive enumeration of the (call, step, cause) grid + rapid-generated combinations; oracle = call returned, error class, Done closed, reader goroutine gone (goroutine dump)",
      "The finite grid is run completely on every invocation; multi-call combinations and reconnect phases are sampled. A call still parked "
      "20 s after the stimulus is reported with the goroutine dump.", "goroutine dumps identify the reader goroutine by function name", "DESIGN.md section 4 / C11")

mtext("C10", "concurrent program generator on E5 / E3 under the Go race detector",
      "rapid-generated concurrent API programs run under -race with schedule perturbation; oracle = race detector + write-overlap detector + strict stream framer",
      "Sampling of programs and schedules; exactly what the property's quantifier text asks for ('sampled with perturbation under the race detector').",
      "a race report is attributed to the library only if a frame lies in its own sources; reports purely inside the harness make the run inconclusive",
      "DESIGN.md section 4 / C10")
