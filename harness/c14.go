//go:build verif

package mqtt

// C14 — topic filters validate/match per MQTT 4.7; ServeMux dispatches accordingly.
// Oracle: an independent recursive definition written from section 4.7.

import (
	"errors"
	"testing"

	"pgregory.net/rapid"
)

// refSplitLevels splits on '/' without using the strings package helpers the library uses.
func refSplitLevels(s string) []string {
	var out []string
	start := 0
	for i := 0; i < len(s); i++ {
		if s[i] == '/' {
			out = append(out, s[start:i])
			start = i + 1
		}
	}
	return append(out, s[start:])
}

func refHasByte(s string, b byte) bool {
	for i := 0; i < len(s); i++ {
		if s[i] == b {
			return true
		}
	}
	return false
}

// refValidFilter: non-empty; '+' only as a whole level; '#' only as the whole last level.
func refValidFilter(f string) bool {
	if f == "" {
		return false
	}
	lv := refSplitLevels(f)
	for i, l := range lv {
		if refHasByte(l, '+') && l != "+" {
			return false
		}
		if refHasByte(l, '#') && (l != "#" || i != len(lv)-1) {
			return false
		}
	}
	return true
}

// refMatch is the level-wise definition of 4.7: '#' matches the parent and any number of
// descendants, '+' exactly one level (possibly empty), anything else literally.
func refMatch(f, t []string) bool {
	if len(f) == 0 {
		return len(t) == 0
	}
	if f[0] == "#" {
		return true
	}
	if len(t) == 0 {
		return false
	}
	if f[0] == "+" || f[0] == t[0] {
		return refMatch(f[1:], t[1:])
	}
	return false
}

type c14Pair struct {
	Filter string `json:"filter"`
	Topic  string `json:"topic"`
}

func c14NontrivialFilter(f string) bool {
	if refHasByte(f, '+') || refHasByte(f, '#') {
		return true
	}
	for _, l := range refSplitLevels(f) {
		if l == "" {
			return true
		}
	}
	return false
}

// c14CheckPair returns "" when the library agrees with the reference on this pair.
func c14CheckPair(p c14Pair) string {
	tf, err := newTopicFilter(p.Filter)
	valid := refValidFilter(p.Filter)
	if valid != (err == nil) {
		return "filter " + vQ(p.Filter) + ": reference valid=" + vB(valid) + " but newTopicFilter error=" + vE(err)
	}
	if err != nil {
		if !errors.Is(err, ErrInvalidTopicFilter) {
			return "filter " + vQ(p.Filter) + ": rejection is not ErrInvalidTopicFilter: " + vE(err)
		}
		return ""
	}
	want := refMatch(refSplitLevels(p.Filter), refSplitLevels(p.Topic))
	if got := tf.Match(p.Topic); got != want {
		return "filter " + vQ(p.Filter) + " topic " + vQ(p.Topic) + ": Match=" + vB(got) + " reference=" + vB(want)
	}
	return ""
}

func vQ(s string) string { return "\"" + s + "\"" }
func vB(b bool) string {
	if b {
		return "true"
	}
	return "false"
}
func vE(err error) string {
	if err == nil {
		return "<nil>"
	}
	return err.Error()
}

func c14Words(alpha []string, minDepth, maxDepth int) []string {
	var out []string
	var rec func(prefix string, depth int)
	rec = func(prefix string, depth int) {
		if depth >= minDepth {
			out = append(out, prefix)
		}
		if depth == maxDepth {
			return
		}
		for _, a := range alpha {
			if depth == 0 {
				rec(a, 1)
			} else {
				rec(prefix+"/"+a, depth+1)
			}
		}
	}
	for _, a := range alpha {
		rec(a, 1)
	}
	return out
}

// TestVerifC14_Exhaustive enumerates the whole bounded space in both tiers.
func TestVerifC14_Exhaustive(t *testing.T) {
	if vReplayOrCorpusOnly() {
		t.Skip("replay mode")
	}
	filters := append([]string{""}, c14Words([]string{"", "a", "b", "+", "#", "a+", "#b"}, 1, 4)...)
	topics := c14Words([]string{"", "a", "b"}, 1, 5)
	pairs, validFilters := 0, 0
	for _, f := range filters {
		if refValidFilter(f) {
			validFilters++
		}
		nt := c14NontrivialFilter(f)
		for _, tp := range topics {
			if tp == "" {
				continue // the empty string is not a topic name
			}
			p := c14Pair{f, tp}
			pairs++
			vCount("C14", nt, []byte(f+"\x00"+tp), nil, func() interface{} { return p })
			if msg := c14CheckPair(p); msg != "" {
				vSetCurrent("C14", "TestVerifC14_Pair", p, false)
				vWriteFailure(msg, nil)
				t.Fatalf("ORACLE: %s", msg)
			}
		}
	}
	vExtraSet("C14", "exhaustive_filters", len(filters))
	vExtraSet("C14", "exhaustive_valid_filters", validFilters)
	vExtraSet("C14", "exhaustive_topics", len(topics)-1)
	vExtraSet("C14", "exhaustive_pairs", pairs)
}

func vReplayOrCorpusOnly() bool {
	return vEnv("VERIF_REPLAY") != "" || vEnv("VERIF_CORPUS_ONLY") != ""
}

// (glbvs/yacxa and glbvp/yacxb have equal length and equal 32-bit FNV-1a sums, costarring/liquid and declinate/macallums
// equal FNV-1 / FNV-1a sums at different lengths: hostile constants for level comparison through a checksum)
var c14FilterLevels = []string{"", "a", "b", "+", "#", "a+", "#b", "+a", "a#", "日本", "é", " ", "$SYS", "ab", "A", "++", "+#", "glbvs", "yacxa", "glbvp", "costarring", "declinate"}
var c14TopicLevels = []string{"", "a", "b", "日本", "é", " ", "ab", "A", "$SYS", "c", "glbvs", "yacxa", "yacxb", "liquid", "macallums"}
var c14TopicFirst = []string{"", "a", "b", "日本", "é", " ", "ab", "A", "c", "glbvs", "yacxa", "yacxb", "liquid", "macallums"}

func c14Join(levels []string) string {
	s := ""
	for i, l := range levels {
		if i > 0 {
			s += "/"
		}
		s += l
	}
	return s
}

func c14GenTopic(rt *rapid.T, label string) string {
	n := rapid.IntRange(1, 12).Draw(rt, label+"Depth")
	if rapid.IntRange(0, 7).Draw(rt, label+"Deep") == 0 {
		n = rapid.IntRange(13, 90).Draw(rt, label+"DepthDeep") // far beyond any fixed-size level buffer
	}
	lv := make([]string, n)
	for i := range lv {
		if i == 0 {
			lv[i] = rapid.SampledFrom(c14TopicFirst).Draw(rt, label+"L0")
		} else {
			lv[i] = rapid.SampledFrom(c14TopicLevels).Draw(rt, label+"L")
		}
	}
	tp := c14Join(lv)
	if tp == "" {
		tp = "a"
	}
	return tp
}

func c14GenFilter(rt *rapid.T, label string, topic string) string {
	kind := rapid.IntRange(0, 9).Draw(rt, label+"Kind")
	switch {
	case kind <= 5: // derived from the topic: replace some levels by wildcards / cut with '#'
		lv := refSplitLevels(topic)
		out := make([]string, 0, len(lv)+1)
		noisy := kind >= 4
		for _, l := range lv {
			m := rapid.IntRange(0, 11).Draw(rt, label+"Mut")
			switch {
			case m <= 2:
				out = append(out, "+")
			case m == 3:
				out = append(out, "#")
				if noisy && rapid.Bool().Draw(rt, label+"Go") {
					continue
				}
				return c14Join(out)
			case m == 4 && noisy:
				out = append(out, rapid.SampledFrom(c14FilterLevels).Draw(rt, label+"Sub"))
			case m == 5 && noisy:
				// drop the level
			default:
				out = append(out, l)
			}
		}
		switch rapid.IntRange(0, 7).Draw(rt, label+"Tail") {
		case 0:
			out = append(out, "#")
		case 1:
			out = append(out, "+")
		case 2:
			out = append(out, "")
		}
		return c14Join(out)
	case kind == 6 && rapid.IntRange(0, 9).Draw(rt, label+"Empty") == 0:
		return ""
	default:
		n := rapid.IntRange(1, 12).Draw(rt, label+"Depth")
		lv := make([]string, n)
		for i := range lv {
			lv[i] = rapid.SampledFrom(c14FilterLevels).Draw(rt, label+"L")
		}
		return c14Join(lv)
	}
}

// TestVerifC14_Pair: random pairs beyond the bounded space (multi-byte runes, deep
// topics, '+'/'#' embedded in words, leading/trailing/double separators).
func TestVerifC14_Pair(t *testing.T) {
	vRun(t, "C14", vOpts{}, func(rt *rapid.T) c14Pair {
		tp := c14GenTopic(rt, "t")
		return c14Pair{Filter: c14GenFilter(rt, "f", tp), Topic: tp}
	}, func(tb rapid.TB, p c14Pair) {
		lbl := "random:invalid-filter"
		if refValidFilter(p.Filter) {
			if refMatch(refSplitLevels(p.Filter), refSplitLevels(p.Topic)) {
				lbl = "random:match"
			} else {
				lbl = "random:nomatch"
			}
		}
		vCount("C14", c14NontrivialFilter(p.Filter), []byte(p.Filter+"\x00"+p.Topic), []string{lbl}, func() interface{} { return p })
		if msg := c14CheckPair(p); msg != "" {
			vFailf(tb, nil, "%s", msg)
		}
	})
}

type c14MuxCase struct {
	Filters []string `json:"filters"`
	Topics  []string `json:"topics"`
	// Late[i] >= 0: handler i, when it first runs, registers the filter Filters[Late[i]] again under a new number
	// (a handler calling Handle from inside its callback, while Serve is in progress)
	Late []int `json:"late,omitempty"`
	// Nested[i] (same length as Filters, or empty): handler i, when invoked by the outermost Serve, dispatches the topics
	// Topics[j] for j in Nested[i] through the same mux before it returns (a handler unpacking a bundle)
	Nested [][]int `json:"nested,omitempty"`
}

// TestVerifC14_Mux: ServeMux invokes exactly the handlers whose filter matches, in
// registration order; invalid filters are rejected and register nothing.
func TestVerifC14_Mux(t *testing.T) {
	vRun(t, "C14", vOpts{}, func(rt *rapid.T) c14MuxCase {
		var c c14MuxCase
		nt := rapid.IntRange(1, 3).Draw(rt, "nTopics")
		for i := 0; i < nt; i++ {
			c.Topics = append(c.Topics, c14GenTopic(rt, "t"))
		}
		nf := rapid.IntRange(1, 8).Draw(rt, "nFilters")
		if rapid.IntRange(0, 3).Draw(rt, "large") == 0 {
			// a large mux (any size-dependent dispatch structure must keep set and order)
			nf = rapid.IntRange(9, 70).Draw(rt, "nFiltersLarge")
		}
		for i := 0; i < nf; i++ {
			c.Filters = append(c.Filters, c14GenFilter(rt, "f", c.Topics[rapid.IntRange(0, nt-1).Draw(rt, "base")]))
		}
		switch rapid.IntRange(0, 5).Draw(rt, "reentrant") {
		case 0, 1:
			for i := 0; i < nf; i++ {
				c.Late = append(c.Late, rapid.IntRange(-2, nf-1).Draw(rt, "late"))
			}
		case 2:
			for i := 0; i < nf; i++ {
				var ns []int
				if rapid.IntRange(0, 2).Draw(rt, "nests") == 0 {
					ns = rapid.SliceOfN(rapid.IntRange(0, nt-1), 1, 3).Draw(rt, "nested")
				}
				c.Nested = append(c.Nested, ns)
			}
		}
		return c
	}, func(tb rapid.TB, c c14MuxCase) {
		mux := &ServeMux{}
		var calls []int
		depth := 0 // > 0 while a handler is dispatching nested messages
		// registered: filters in registration order (grows when a handler registers another one)
		registered := []string{}
		lateDone := map[int]bool{}
		var lateAdded []int // numbers of the handlers added during the Serve in progress
		for i, f := range c.Filters {
			i := i
			body := func(*Message) {
				calls = append(calls, i)
				if depth == 0 && i < len(c.Nested) {
					depth++
					for _, j := range c.Nested[i] {
						mux.Serve(&Message{Topic: c.Topics[j], Payload: []byte("n")})
					}
					depth--
				}
				if i < len(c.Late) && c.Late[i] >= 0 && !lateDone[i] {
					lateDone[i] = true
					nf := c.Filters[c.Late[i]]
					num := 1000 + i
					if mux.Handle(nf, HandlerFunc(func(*Message) { calls = append(calls, num) })) == nil {
						registered = append(registered, nf)
						lateAdded = append(lateAdded, num)
					}
				}
			}
			var err error
			if i%2 == 0 {
				err = mux.Handle(f, HandlerFunc(body))
			} else {
				err = mux.HandleFunc(f, body)
			}
			if err == nil {
				registered = append(registered, f)
			}
			if (err == nil) != refValidFilter(f) {
				vFailf(tb, nil, "ServeMux.Handle(%q): error=%v but reference valid=%v", f, err, refValidFilter(f))
			}
			if err != nil && !errors.Is(err, ErrInvalidTopicFilter) {
				vFailf(tb, nil, "ServeMux.Handle(%q): rejection is not ErrInvalidTopicFilter: %v", f, err)
			}
		}
		multi := 0
		// numbers[k] = handler number of the k-th registered filter
		numbers := []int{}
		for i, f := range c.Filters {
			if refValidFilter(f) {
				numbers = append(numbers, i)
			}
		}
		topics := append([]string{}, c.Topics...)
		if len(c.Late) > 0 {
			topics = append(topics, c.Topics...) // a second round: handlers registered during the first must now be called
		}
		for _, tp := range topics {
			// reference: every handler registered BEFORE this Serve whose filter matches, in registration order
			var want []int
			var ref func(topic string, d int)
			ref = func(topic string, d int) {
				for k, f := range registered {
					if refMatch(refSplitLevels(f), refSplitLevels(topic)) {
						want = append(want, numbers[k])
						if d == 0 && numbers[k] < len(c.Nested) {
							for _, j := range c.Nested[numbers[k]] {
								ref(c.Topics[j], d+1)
							}
						}
					}
				}
			}
			ref(tp, 0)
			if len(want) >= 2 {
				multi++
			}
			calls = nil
			lateAdded = nil
			mux.Serve(&Message{Topic: tp, Payload: []byte("x")})
			// handlers added while this Serve ran may or may not see the current message: ignore them here
			got := calls[:0:0]
			for _, n := range calls {
				added := false
				for _, a := range lateAdded {
					if a == n {
						added = true
					}
				}
				if !added {
					got = append(got, n)
				}
			}
			numbers = append(numbers, lateAdded...)
			if !vEqInts(got, want) {
				vFailf(tb, nil, "ServeMux.Serve(topic %q) with registered filters %q (numbers %v) invoked handlers %v, reference %v", tp, registered, numbers, calls, want)
			}
		}
		lbl := "mux:<2-matching"
		if multi > 0 {
			lbl = "mux:>=2-matching"
		}
		vCount("C14", multi > 0, vJSON(c), []string{lbl}, func() interface{} { return c })
	})
}

func vEqInts(a, b []int) bool {
	if len(a) != len(b) {
		return false
	}
	for i := range a {
		if a[i] != b[i] {
			return false
		}
	}
	return true
}
