//go:build verif

package mqtt

// C13 part 2 — the reconnecting client closes a connection whose peer went silent and
// establishes a new one; a peer that answers every ping is left alone.

import (
	"errors"
	"fmt"
	"testing"

	"pgregory.net/rapid"
)

func c13bGen(rt *rapid.T) e4Case {
	c := e4Case{Cfg: e4GenConfig(rt)}
	c.Cfg.PingMs = rapid.IntRange(2, 6).Draw(rt, "pingMs")
	silent := rapid.IntRange(0, 3).Draw(rt, "silent") != 0
	o := e4GenOpts{MaxSteps: 5, QoSWeights: []int{1, 2, 2}, SubWeight: 2, PreConnect: false, NoCuts: true}
	c.Steps = e4GenSteps(rt, o)
	if silent {
		c.Cfg.PingTimeoutMs = rapid.IntRange(2, 8).Draw(rt, "pingTimeoutMs")
		n := rapid.IntRange(1, 2).Draw(rt, "nSilent")
		for i := 0; i < n; i++ {
			c.Faults = append(c.Faults, e4Fault{Kind: "goSilent", Conn: i + 1, Pkt: rapid.IntRange(1, 6).Draw(rt, "pkt")})
		}
		// the application probes the connection itself (Ping without deadline) the moment the peer goes silent
		c.Cfg.AppPingOnSilence = rapid.IntRange(0, 2).Draw(rt, "appPing") == 0
		if rapid.IntRange(0, 2).Draw(rt, "latePingresp") == 0 {
			// a slow broker (PINGRESP 3 ms late, well inside the keep-alive's own timeout) and an application that pings
			// with a 1 ms deadline: its answers arrive after it gave up and must not count for anybody else
			c.Cfg.PingDelayMs = 3
			c.Cfg.PingMs = rapid.IntRange(5, 8).Draw(rt, "pingMs3")
			c.Cfg.PingTimeoutMs = rapid.IntRange(40, 60).Draw(rt, "pingTimeoutMs3")
			c.Cfg.AppPingShortN = rapid.IntRange(1, 3).Draw(rt, "appPingShortN")
			// by construction: the late answers have arrived (8 ms), one request completes, the peer goes silent right
			// behind it, and one more request keeps the client waiting until the silence has been dealt with
			c.Steps = []e4Step{{Kind: "connect"}, {Kind: "settle"}, {Kind: "sleep", Extra: 8000},
				{Kind: "pub", QoS: 1, Topic: "t/a", Idx: 1}, {Kind: "settle"}, {Kind: "pub", QoS: 1, Topic: "t/b", Idx: 2}}
			c.Faults = []e4Fault{{Kind: "goSilentType", Conn: 1, Type: rtPublish, Nth: 1}}
		}
		// steady outbound traffic (QoS0 publishes more often than the ping interval) must not keep the silence undetected
		c.Cfg.ChatterUs = rapid.SampledFrom([]int{0, 0, 300, 1000}).Draw(rt, "chatterUs")
		if c.Cfg.AppPingShortN > 0 {
			c.Cfg.ChatterUs = 0 // (the constructed case counts PUBLISH packets)
		}
	} else {
		// negative class: every ping is answered; the timeout is far away so that load cannot fake a silence
		c.Cfg.PingTimeoutMs = 2000
		if rapid.Bool().Draw(rt, "slowHealthy") {
			// a slow but healthy broker (answers after 30 ms, far inside the 2 s timeout) while the retrying client has a
			// shorter ResponseTimeout for its requests: the keep-alive must still use its own timeout
			c.Cfg.PingDelayMs = 30
			c.Cfg.PingMs = 10
			c.Cfg.RespTimeoutMs = rapid.SampledFrom([]int{0, 10, 15}).Draw(rt, "respTimeoutMs3")
			c.Steps = []e4Step{{Kind: "connect"}}
		}
		mult := 10
		if c.Cfg.PingDelayMs == 0 && rapid.Bool().Draw(rt, "chatter") {
			// steady outbound traffic must not replace the pings: over 50 intervals at least one PINGREQ is due
			c.Cfg.ChatterUs = rapid.SampledFrom([]int{300, 1000}).Draw(rt, "chatterUs2")
			mult = 50
		}
		c.Steps = append(c.Steps, e4Step{Kind: "settle"}, e4Step{Kind: "sleep", Extra: c.Cfg.PingMs * 1000 * mult}, e4Step{Kind: "settle"})
	}
	return c
}

func c13bOracle(r *e4Result) (string, bool, []string) {
	var labels []string
	silentSeen := false
	afterAnsweredPing := false
	for _, e := range r.Log {
		if e.Kind != "SILENT" {
			continue
		}
		silentSeen = true
		for _, l := range r.Log {
			if l.Seq < e.Seq && l.Conn == e.Conn && l.Kind == "B" && l.Pkt != nil && l.Pkt.Type == rtPingResp {
				afterAnsweredPing = true
			}
		}
		// After the silence the keep-alive can write at most one more PINGREQ: that one is never answered, so it must end
		// in ErrPingTimeout and the connection is closed (one already in flight when the silence began makes it zero).
		// Pings the application itself made after the silence are its own business.
		pingsAfter, appPings := 0, 0
		for _, l := range r.Log {
			if l.Seq > e.Seq && l.Conn == e.Conn && l.Kind == "W" && l.Pkt != nil && l.Pkt.Type == rtPingReq {
				pingsAfter++
			}
			if l.Seq > e.Seq && l.Conn == e.Conn && l.Kind == "APP-PING" && l.Note == "called" {
				appPings++
			}
			if l.Seq > e.Seq && l.Kind == "APP-PING-SHORT" {
				appPings++ // (logged when it returned: it may have been written after the silence began)
			}
		}
		if pingsAfter > 1+appPings {
			return fmt.Sprintf("the peer of c%d went silent (#%d); afterwards %d PINGREQs were written there (the application itself pinged %d times): an unanswered keep-alive ping was not treated as a timeout", e.Conn, e.Seq, pingsAfter, appPings), true, labels
		}
		closedLocal, cut := false, false
		var closeSeq int64
		for _, l := range r.Log {
			if l.Seq <= e.Seq || l.Conn != e.Conn {
				continue
			}
			if l.Kind == "CUT" {
				cut = true
			}
			if l.Kind == "CLOSE-LOCAL" && !closedLocal {
				closedLocal, closeSeq = true, l.Seq
			}
		}
		if cut {
			continue
		}
		if !closedLocal {
			if r.Stuck {
				return fmt.Sprintf("the peer of c%d went silent (#%d) but the client never closed that connection and nothing happens any more; %s", e.Conn, e.Seq, e4Undone(r)), true, labels
			}
			continue
		}
		redial := false
		for _, l := range r.Log {
			if l.Kind == "DIAL" && l.Seq > closeSeq {
				redial = true
			}
		}
		if !redial && (r.Quiesced || r.Stuck) {
			return fmt.Sprintf("c%d was closed after its peer went silent (#%d) but no new connection was dialled", e.Conn, closeSeq), true, labels
		}
	}
	if silentSeen {
		labels = append(labels, "c13:peer-went-silent")
		if afterAnsweredPing {
			labels = append(labels, "c13:silent-after-answered-ping")
		}
		if msg := e4OracleC01(r); msg != "" {
			return msg, true, labels
		}
		return "", afterAnsweredPing, labels
	}
	if len(r.Case.Faults) > 0 {
		// a silence was planned but its connection did not live long enough (e.g. the short connect
		// timeout of this class expired under load): nothing to judge
		return "", false, append(labels, "c13:planned-silence-not-reached")
	}
	// negative class: all pings answered => no close, no redial, no keep-alive error
	labels = append(labels, "c13:all-pings-answered")
	pings := 0
	for _, e := range r.Log {
		if e.Kind == "CUT" {
			return "", false, labels // the harness itself cut a link: not the all-answered class
		}
	}
	for _, e := range r.Log {
		if e.Kind == "W" && e.Pkt.Type == rtPingReq {
			pings++
		}
		if e.Kind == "CLOSE-LOCAL" || (e.Kind == "DIAL" && e.Conn > 1) {
			return fmt.Sprintf("every PINGREQ was answered, yet the client closed the connection / dialled again (#%d %s)", e.Seq, e.Kind), pings >= 2, labels
		}
	}
	for _, ce := range r.ConnEnd {
		if ce.Err != nil && errors.Is(ce.Err, ErrPingTimeout) {
			return fmt.Sprintf("every PINGREQ was answered, yet connection c%d carries %v", ce.ID, ce.Err), pings >= 2, labels
		}
	}
	if r.Stuck {
		return "client idle with work undone: " + e4Undone(r), pings >= 2, labels
	}
	if r.Case.Cfg.ChatterUs > 0 {
		labels = append(labels, "c13:healthy-with-chatter")
		slept := false
		for _, s := range r.Case.Steps {
			if s.Kind == "sleep" && s.Extra >= r.Case.Cfg.PingMs*1000*50 {
				slept = true
			}
		}
		if slept && pings == 0 && r.Quiesced {
			return fmt.Sprintf("the connection stayed healthy for more than 50 ping intervals (%d ms each) while the application kept publishing, and not a single PINGREQ was sent", r.Case.Cfg.PingMs), true, labels
		}
	}
	return "", pings >= 3, labels
}

func TestVerifC13_SilentPeer(t *testing.T) {
	vRun(t, "C13", vOpts{CurFile: true, ReplayReps: 5}, c13bGen, func(tb rapid.TB, c e4Case) {
		e4Check(tb, "C13", c, func(r *e4Result) string {
			msg, _, _ := c13bOracle(r)
			return msg
		}, func(r *e4Result) (bool, []string) {
			_, nt, labels := c13bOracle(r)
			return nt, labels
		})
	})
}

// TestVerifC13_KeepAliveOption: the ping interval is not given; it follows from the keep-alive value requested in Connect
// (whole seconds). A peer that goes silent must still be detected - these cases take a few seconds each.
func TestVerifC13_KeepAliveOption(t *testing.T) {
	vRun(t, "C13", vOpts{CurFile: true, ReplayReps: 1}, func(rt *rapid.T) e4Case {
		c := e4Case{Cfg: e4Config{SessionKept: true, BaseUs: 500, MaxUs: 1000, KeepAliveS: 1}}
		c.Cfg.CleanSession = rapid.Bool().Draw(rt, "clean")
		c.Steps = []e4Step{{Kind: "connect"}, {Kind: "settle"}, {Kind: "pub", QoS: rapid.IntRange(1, 2).Draw(rt, "qos"), Topic: "t/a", Idx: 1}}
		// silent from the CONNECT on, or right behind the first request
		if rapid.Bool().Draw(rt, "early") {
			c.Faults = []e4Fault{{Kind: "goSilent", Conn: 1, Pkt: 1}}
		} else {
			c.Faults = []e4Fault{{Kind: "goSilentType", Conn: 1, Type: rtPublish, Nth: 1}}
			c.Steps = append(c.Steps, e4Step{Kind: "settle"}, e4Step{Kind: "pub", QoS: 1, Topic: "t/b", Idx: 2})
		}
		return c
	}, func(tb rapid.TB, c e4Case) {
		e4Check(tb, "C13", c, func(r *e4Result) string {
			msg, _, _ := c13bOracle(r)
			return msg
		}, func(r *e4Result) (bool, []string) {
			_, _, labels := c13bOracle(r)
			return true, append(labels, "c13:interval-from-keep-alive-option")
		})
	})
}
