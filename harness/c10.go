//go:build verif

package mqtt

// C10 — safe for concurrent use: no data races (race detector), packets never interleave on the wire
// (overlap detector on a transport without a lock of its own + strict framer).

import (
	"context"
	"fmt"
	"runtime"
	"sync"
	"sync/atomic"
	"testing"
	"time"

	"pgregory.net/rapid"
)

type c10Op struct {
	Kind   string `json:"kind"` // pub0 pub1 pub2 sub unsub ping handle stats done err client
	Yields int    `json:"yields,omitempty"`
	Len    int    `json:"len,omitempty"`
	// DeadlineUs > 0: the call's context expires after that many microseconds (a request given up while its
	// acknowledgement is on the way); 0 = generous deadline
	DeadlineUs int `json:"deadlineUs,omitempty"`
}

type c10Case struct {
	Procs   int       `json:"procs"`
	Threads [][]c10Op `json:"threads"`
	Inbound int       `json:"inbound"` // inbound QoS1/QoS2 messages sent by the peer meanwhile
	Close   bool      `json:"close"`   // one more goroutine closes the client while the others run
	// Disconnect: instead, one more goroutine ends the session gracefully (Disconnect) while the others run
	Disconnect bool `json:"disconnect,omitempty"`
	// Others: that many independent clients (own transports) connect at the same moment as this one: clients share no state
	Others int `json:"others,omitempty"`
	// reconnect variant
	Cuts   int  `json:"cuts,omitempty"`
	PingMs int  `json:"pingMs,omitempty"`
	Direct bool `json:"direct,omitempty"` // DirectlyPublishQoS0: QoS0 publishes are written by the callers themselves
}

var c10Kinds = []string{"pub0", "pub1", "pub1", "pub2", "pub2", "sub", "unsub", "ping", "handle", "stats", "done", "err", "client"}

func c10Gen(rt *rapid.T, reconnect bool) c10Case {
	c := c10Case{Procs: rapid.SampledFrom([]int{2, 4, 16}).Draw(rt, "procs")}
	g := rapid.IntRange(2, 8).Draw(rt, "goroutines")
	for i := 0; i < g; i++ {
		ops := rapid.SliceOfN(rapid.Custom(func(rt *rapid.T) c10Op {
			return c10Op{Kind: rapid.SampledFrom(c10Kinds).Draw(rt, "kind"), Yields: rapid.IntRange(0, 3).Draw(rt, "y"), Len: rapid.SampledFrom([]int{0, 1, 10, 200, 3000, 4096, 5000, 20000, 70000}).Draw(rt, "len"),
				DeadlineUs: rapid.SampledFrom([]int{0, 0, 0, 0, 1, 5, 20, 50, 200}).Draw(rt, "deadlineUs")}
		}), 1, 8).Draw(rt, "ops")
		c.Threads = append(c.Threads, ops)
	}
	c.Inbound = rapid.IntRange(0, 12).Draw(rt, "inbound")
	if reconnect {
		c.Cuts = rapid.IntRange(1, 4).Draw(rt, "cuts")
		c.PingMs = rapid.IntRange(1, 3).Draw(rt, "pingMs")
		c.Direct = rapid.Bool().Draw(rt, "direct")
	} else {
		c.Others = rapid.SampledFrom([]int{0, 0, 3, 7}).Draw(rt, "others")
		switch rapid.IntRange(0, 5).Draw(rt, "close") {
		case 0:
			c.Close = true
		case 1:
			c.Disconnect = true
		}
	}
	return c
}

func c10Payload(g, i, n int) []byte {
	b := []byte(fmt.Sprintf("g%d.%d|%d|", g, i, n))
	sum := 0
	for k := 0; k < n; k++ {
		v := byte(g*31 + i*7 + k)
		b = append(b, v)
		sum += int(v)
	}
	return append(b, []byte(fmt.Sprintf("|%d", sum))...)
}

func c10CheckPayload(p []byte) bool {
	var g, i, n int
	if _, err := fmt.Sscanf(string(p), "g%d.%d|%d|", &g, &i, &n); err != nil {
		return true // not one of ours (markers etc.)
	}
	want := c10Payload(g, i, n)
	return string(want) == string(p)
}

// c10RunOps runs the goroutines' operation lists against a Client.
func c10RunOps(ctx context.Context, c c10Case, cli Client, extra func(op c10Op, g, i int) bool, inFlight *int32, maxOverlap *int32) {
	var wg sync.WaitGroup
	gate := make(chan struct{})
	for g, ops := range c.Threads {
		g, ops := g, ops
		wg.Add(1)
		go func() {
			defer wg.Done()
			<-gate
			for i, op := range ops {
				for y := 0; y < op.Yields; y++ {
					runtime.Gosched()
				}
				n := atomic.AddInt32(inFlight, 1)
				for {
					m := atomic.LoadInt32(maxOverlap)
					if n <= m || atomic.CompareAndSwapInt32(maxOverlap, m, n) {
						break
					}
				}
				dl := 5 * time.Second
				if op.DeadlineUs > 0 {
					dl = time.Duration(op.DeadlineUs) * time.Microsecond
				}
				octx, cancel := context.WithTimeout(ctx, dl)
				switch op.Kind {
				case "pub0", "pub1", "pub2":
					q := QoS(op.Kind[3] - '0')
					_ = cli.Publish(octx, &Message{Topic: "c10/t", QoS: q, Payload: c10Payload(g, i, op.Len)})
				case "sub":
					_, _ = cli.Subscribe(octx, Subscription{Topic: fmt.Sprintf("c10/%d", g), QoS: QoS1})
				case "unsub":
					_ = cli.Unsubscribe(octx, fmt.Sprintf("c10/%d", g))
				case "ping":
					// concurrent pings share one response slot: only one of them is answered, so keep the wait short
					pctx, pc := context.WithTimeout(octx, 2*time.Millisecond)
					_ = cli.Ping(pctx)
					pc()
				case "handle":
					cli.Handle(HandlerFunc(func(*Message) {}))
				default:
					extra(op, g, i)
				}
				cancel()
				atomic.AddInt32(inFlight, -1)
			}
		}()
	}
	close(gate)
	wg.Wait()
}

func c10BaseRun(tb rapid.TB, c c10Case) {
	old := runtime.GOMAXPROCS(c.Procs)
	defer runtime.GOMAXPROCS(old)
	r := newBaseRig()
	defer r.shutdown()
	r.peer.auto = func(p *bpeer, pk refPacket) {
		if pk.Type == rtPublish && !c10CheckPayload(pk.Payload) {
			p.log.add(1, "PAYLOAD-CORRUPT", &pk, "")
		}
		bpeerBrokerAuto(p, pk)
	}
	r.cli.Handle(HandlerFunc(func(*Message) {}))
	if c.Others > 0 {
		var cw sync.WaitGroup
		gate := make(chan struct{})
		for k := 0; k < c.Others; k++ {
			o := newBaseRig()
			defer o.shutdown()
			cw.Add(1)
			go func() {
				defer cw.Done()
				<-gate
				octx, oc := context.WithTimeout(context.Background(), 20*time.Second)
				defer oc()
				_, _ = o.cli.Connect(octx, "verif-other")
			}()
		}
		cw.Add(1)
		go func() { defer cw.Done(); <-gate; r.connect(tb) }()
		close(gate)
		cw.Wait()
	} else {
		r.connect(tb)
	}
	r.conn.unsafeMode, r.conn.yieldEvery = true, 2
	ctx, cancel := context.WithCancel(context.Background())
	defer cancel()
	var inFlight, maxOverlap int32
	stop := make(chan struct{})
	var bg sync.WaitGroup
	bg.Add(1)
	go func() { // inbound traffic: the reader goroutine writes PUBACK / PUBREC / PUBCOMP concurrently with the callers
		defer bg.Done()
		for k := 0; k < c.Inbound; k++ {
			select {
			case <-stop:
				return
			default:
			}
			id := 3000 + k
			if k%2 == 0 {
				r.peer.send(refPacket{Type: rtPublish, QoS: 1, ID: id, Topic: "in", Payload: []byte("x")})
			} else {
				r.peer.send(refPacket{Type: rtPublish, QoS: 2, ID: id, Topic: "in", Payload: []byte("x")})
				r.peer.send(refPacket{Type: rtPubRel, ID: id})
			}
			runtime.Gosched()
		}
	}()
	if c.Close {
		bg.Add(1)
		go func() {
			defer bg.Done()
			for y := 0; y < 20; y++ {
				runtime.Gosched()
			}
			r.cli.Close()
		}()
	}
	if c.Disconnect {
		bg.Add(1)
		go func() {
			defer bg.Done()
			for y := 0; y < 20; y++ {
				runtime.Gosched()
			}
			dctx, dc := context.WithTimeout(context.Background(), 10*time.Second)
			_ = r.cli.Disconnect(dctx)
			dc()
		}()
	}
	c10RunOps(ctx, c, r.cli, func(op c10Op, g, i int) bool {
		switch op.Kind {
		case "stats":
			_ = r.cli.Stats()
		case "done":
			_ = r.cli.Done()
		case "err":
			_ = r.cli.Err()
		case "client":
			_ = r.cli.Err()
		}
		return true
	}, &inFlight, &maxOverlap)
	close(stop)
	bg.Wait()
	if !c.Close && !c.Disconnect {
		r.peer.sync(20 * time.Second)
	}
	labels := []string{fmt.Sprintf("c10:base:max-overlap=%d", minInt(int(maxOverlap), 4))}
	vCount("C10", maxOverlap >= 2, vJSON(c), labels, func() interface{} { return c })
	c10Verdict(tb, r.log, atomic.LoadInt32(&r.conn.overlaps), r.peer.frameErr)
}

func c10Verdict(tb rapid.TB, log *vLog, overlaps int32, frameErr error) {
	if overlaps > 0 {
		vFailf(tb, log.strings(60), "%d Transport.Write calls overlapped in time: whole-packet writes are not serialised", overlaps)
	}
	for _, e := range log.snapshot() {
		if e.Kind == "PAYLOAD-CORRUPT" || e.Kind == "FRAME-ERROR" {
			vFailf(tb, log.strings(60), "the byte stream received by the broker is not a concatenation of whole packets: %v", e)
		}
	}
	if frameErr != nil {
		vFailf(tb, log.strings(60), "the byte stream received by the broker is not a concatenation of whole packets: %v", frameErr)
	}
}

func TestVerifC10_Base(t *testing.T) {
	vRun(t, "C10", vOpts{CurFile: true, ReplayReps: 100}, func(rt *rapid.T) c10Case { return c10Gen(rt, false) }, c10BaseRun)
}

func c10ReconnectRun(tb rapid.TB, c c10Case) {
	old := runtime.GOMAXPROCS(c.Procs)
	defer runtime.GOMAXPROCS(old)
	log := &vLog{}
	b := newVBroker(log, true, false, nil)
	d := &vdialer{b: b, unsafe: true}
	rc := &RetryClient{OnError: func(error) {}, DirectlyPublishQoS0: c.Direct}
	cliI, err := NewReconnectClient(d, WithRetryClient(rc), WithReconnectWait(200*time.Microsecond, time.Millisecond),
		WithPingInterval(time.Duration(c.PingMs)*time.Millisecond), WithTimeout(2*time.Second))
	if err != nil {
		tb.Fatalf("harness: %v", err)
	}
	ctx, cancel := context.WithCancel(context.Background())
	defer cancel()
	cliI.Handle(HandlerFunc(func(*Message) {}))
	if _, err := cliI.Connect(ctx, "verif-c10"); err != nil {
		tb.Fatalf("harness: Connect: %v", err)
	}
	var inFlight, maxOverlap int32
	stop := make(chan struct{})
	var bg sync.WaitGroup
	bg.Add(1)
	go func() { // cuts: reconnects happen while the callers run
		defer bg.Done()
		for k := 0; k < c.Cuts; k++ {
			for y := 0; y < 30; y++ {
				runtime.Gosched()
			}
			select {
			case <-stop:
				return
			default:
			}
			if bc := d.currentConn(); bc != nil {
				b.mu.Lock()
				bc.kill()
				b.mu.Unlock()
			}
			time.Sleep(300 * time.Microsecond)
		}
	}()
	c10RunOps(ctx, c, cliI, func(op c10Op, g, i int) bool {
		switch op.Kind {
		case "stats":
			_ = cliI.Stats()
		case "client", "done", "err":
			if bcli := cliI.Client(); bcli != nil {
				_ = bcli.Err()
				_ = bcli.Done()
				_ = bcli.Stats()
			}
		}
		return true
	}, &inFlight, &maxOverlap)
	close(stop)
	bg.Wait()
	// let the client drain, then stop it
	vWaitUntil(10*time.Second, func() bool { st := rc.Stats(); return st.QueuedTasks == 0 && st.QueuedRetries == 0 })
	dctx, dc := context.WithTimeout(context.Background(), 10*time.Second)
	_ = cliI.Disconnect(dctx)
	dc()
	var overlaps int32
	conns := d.connsSnapshot()
	for _, bc := range conns {
		overlaps += atomic.LoadInt32(&bc.mc.overlaps)
		bc.mc.Close()
	}
	labels := []string{fmt.Sprintf("c10:reconnect:max-overlap=%d", minInt(int(maxOverlap), 4)), fmt.Sprintf("c10:reconnect:connections=%d", minInt(len(conns), 5))}
	vCount("C10", maxOverlap >= 2 && len(conns) >= 2, vJSON(c), labels, func() interface{} { return c })
	b.mu.Lock()
	pe := append([]string{}, b.protoErrs...)
	b.mu.Unlock()
	for _, m := range pe {
		vFailf(tb, log.strings(80), "%s", m)
	}
	c10Verdict(tb, log, overlaps, nil)
}

func TestVerifC10_Reconnect(t *testing.T) {
	vRun(t, "C10", vOpts{CurFile: true, ReplayReps: 100}, func(rt *rapid.T) c10Case { return c10Gen(rt, true) }, c10ReconnectRun)
}
