//go:build verif

package mqtt

// C19 — returned errors keep their cause inspectable and their retry handle.

import (
	"bytes"
	"context"
	"errors"
	"fmt"
	"io"
	"sync"
	"testing"
	"time"

	"pgregory.net/rapid"
)

// ---------------------------------------------------------------------------
// part 1: error chains

var c19Sentinels = []error{
	ErrNotConnected, ErrClosedTransport, ErrConnectionFailed, ErrUnsupportedProtocol, ErrInvalidTopicFilter,
	ErrKeepAliveDisabled, ErrPingTimeout, ErrInvalidRune, ErrInvalidPacket, ErrInvalidPacketLength,
	ErrPayloadLenExceeded, ErrInvalidQoS, ErrClosedClient, ErrInvalidSubAck,
	context.Canceled, context.DeadlineExceeded, io.EOF, io.ErrClosedPipe, io.ErrUnexpectedEOF,
}

var c19SentinelNames = []string{
	"ErrNotConnected", "ErrClosedTransport", "ErrConnectionFailed", "ErrUnsupportedProtocol", "ErrInvalidTopicFilter",
	"ErrKeepAliveDisabled", "ErrPingTimeout", "ErrInvalidRune", "ErrInvalidPacket", "ErrInvalidPacketLength",
	"ErrPayloadLenExceeded", "ErrInvalidQoS", "ErrClosedClient", "ErrInvalidSubAck",
	"context.Canceled", "context.DeadlineExceeded", "io.EOF", "io.ErrClosedPipe", "io.ErrUnexpectedEOF",
}

type c19ValueErr struct{ code int }

func (e c19ValueErr) Error() string { return fmt.Sprintf("value error %d", e.code) }

type c19LegacyErr struct {
	Op  string
	Err error
}

func (e *c19LegacyErr) Error() string { return e.Op + ": " + e.Err.Error() }

// c19SliceErr is an error whose values cannot be compared (a multi-error as transports and option sets return them).
type c19SliceErr []error

func (e c19SliceErr) Error() string { return fmt.Sprintf("%d errors", len(e)) }

type c19ChainCase struct {
	Leaf   int      `json:"leaf"`   // index into sentinels; -1 fresh errors.New; -2 value error; -3 uncomparable (slice-typed) error
	Layers []string `json:"layers"` // bottom-up
}

var c19LayerKinds = []string{"wrapError", "wrapErrorf", "wrapErrorWithRetry", "fmt%w", "ConnectionError", "fmt%v", "RequestTimeoutError", "legacyErrField"}

func c19ChainGen(rt *rapid.T) c19ChainCase {
	c := c19ChainCase{Leaf: rapid.IntRange(-3, len(c19Sentinels)-1).Draw(rt, "leaf")}
	c.Layers = rapid.SliceOfN(rapid.SampledFrom(c19LayerKinds[:6]), 0, 6).Draw(rt, "layers")
	// the two rarer layer kinds, at most once each
	if rapid.IntRange(0, 3).Draw(rt, "rto") == 0 {
		pos := rapid.IntRange(0, len(c.Layers)).Draw(rt, "rtoPos")
		c.Layers = append(c.Layers[:pos], append([]string{"RequestTimeoutError"}, c.Layers[pos:]...)...)
	}
	if rapid.IntRange(0, 5).Draw(rt, "legacy") == 0 {
		pos := rapid.IntRange(0, len(c.Layers)).Draw(rt, "legacyPos")
		c.Layers = append(c.Layers[:pos], append([]string{"legacyErrField"}, c.Layers[pos:]...)...)
	}
	return c
}

func c19ChainRun(tb rapid.TB, c c19ChainCase) {
	var leaf error
	switch {
	case c.Leaf >= 0:
		leaf = c19Sentinels[c.Leaf]
	case c.Leaf == -1:
		leaf = errors.New("fresh leaf")
	case c.Leaf == -3:
		leaf = c19SliceErr{errors.New("first"), errors.New("second")}
	default:
		leaf = c19ValueErr{code: 7}
	}
	// nodes[0] is the leaf; status of each node as seen from the final top:
	// "reach" (through transparent layers only), "hidden" (behind an opaque or legacy layer).
	nodes := []error{leaf}
	transparentAbove := []bool{} // transparentAbove[i]: is the layer directly above node i transparent
	cur := leaf
	libWrappers := 0
	var rto *RequestTimeoutError
	for _, l := range c.Layers {
		var next error
		transparent := true
		switch l {
		case "wrapError":
			next = wrapError(cur, "layer")
			libWrappers++
		case "wrapErrorf":
			next = wrapErrorf(cur, "layer %d", len(nodes))
			libWrappers++
		case "wrapErrorWithRetry":
			next = wrapErrorWithRetry(cur, func(context.Context, *BaseClient) error { return nil }, "layer")
			libWrappers++
		case "fmt%w":
			next = fmt.Errorf("outer: %w", cur)
		case "ConnectionError":
			next = &ConnectionError{Err: cur, Code: NotAuthorized}
		case "fmt%v":
			next = fmt.Errorf("opaque: %v", cur)
			transparent = false
		case "RequestTimeoutError":
			r := &RequestTimeoutError{cur}
			rto, next = r, r
			transparent = false
		case "legacyErrField":
			next = &c19LegacyErr{Op: "legacy", Err: cur}
			transparent = false // reachable only through the reflection fallback: don't care
		}
		if (l == "wrapError" || l == "wrapErrorf" || l == "wrapErrorWithRetry") && cur == io.EOF {
			if next != io.EOF {
				vFailf(tb, nil, "%s(io.EOF) returned %T %v, io.EOF must be passed through unwrapped", l, next, next)
			}
			cur = next
			continue // no new node: the same io.EOF
		}
		transparentAbove = append(transparentAbove, transparent)
		nodes = append(nodes, next)
		cur = next
	}
	top := cur
	// reachability from the top
	reach := make([]bool, len(nodes))
	reach[len(nodes)-1] = true
	for i := len(nodes) - 2; i >= 0; i-- {
		reach[i] = reach[i+1] && transparentAbove[i]
	}
	comparable := func(e error) bool { _, un := e.(c19SliceErr); return !un }
	inChain := func(t error) int {
		for i, nd := range nodes {
			if comparable(nd) && comparable(t) && nd == t {
				return i
			}
		}
		return -1
	}
	safeIs := func(fn func() bool) (res bool, pan interface{}) {
		defer func() { pan = recover() }()
		return fn(), nil
	}
	check := func(name string, target error) {
		got, pan := safeIs(func() bool { return errors.Is(top, target) })
		if pan != nil {
			vFailf(tb, nil, "errors.Is(%v, %s) panicked: %v", top, name, pan)
		}
		idx := inChain(target)
		switch {
		case idx >= 0 && reach[idx] && !got:
			vFailf(tb, nil, "errors.Is(top, %s) = false although %s is in the chain behind transparent wrappers only; chain (bottom-up) leaf=%v layers=%v", name, name, leaf, c.Layers)
		case idx < 0 && got:
			vFailf(tb, nil, "errors.Is(top, %s) = true although %s is nowhere in the chain; leaf=%v layers=%v", name, name, leaf, c.Layers)
		}
		// (*Error).Is called directly must agree with the same reference
		if e, ok := top.(*Error); ok {
			got2, pan2 := safeIs(func() bool { return e.Is(target) })
			if pan2 != nil {
				vFailf(tb, nil, "(*Error).Is(%s) panicked: %v", name, pan2)
			}
			if idx >= 0 && reach[idx] && !got2 {
				vFailf(tb, nil, "(*Error).Is(%s) = false although it is reachable; leaf=%v layers=%v", name, leaf, c.Layers)
			}
			if idx < 0 && got2 {
				vFailf(tb, nil, "(*Error).Is(%s) = true although it is nowhere in the chain; leaf=%v layers=%v", name, leaf, c.Layers)
			}
		}
	}
	for i, s := range c19Sentinels {
		check(c19SentinelNames[i], s)
	}
	for i, nd := range nodes {
		if comparable(nd) { // (errors.Is cannot find an uncomparable target by equality: nothing to demand)
			check(fmt.Sprintf("node[%d]", i), nd)
		}
	}
	check("unrelated fresh error", errors.New("unrelated"))
	check("unrelated value error", c19ValueErr{code: 8})
	if rto != nil {
		idx := inChain(rto)
		var got *RequestTimeoutError
		as := errors.As(top, &got)
		if reach[idx] && (!as || got != rto) {
			vFailf(tb, nil, "errors.As(top, **RequestTimeoutError) = %v although a RequestTimeoutError sits behind transparent wrappers; layers=%v", as, c.Layers)
		}
	} else {
		var got *RequestTimeoutError
		if errors.As(top, &got) {
			vFailf(tb, nil, "errors.As(top, **RequestTimeoutError) = true without any RequestTimeoutError in the chain; layers=%v", c.Layers)
		}
	}
	if wrapError(nil, "x") != nil || wrapErrorf(nil, "x") != nil || wrapErrorWithRetry(nil, nil, "x") != nil {
		vFailf(tb, nil, "wrapping nil did not return nil")
	}
	// a retry handle must survive as long as only library wrappers... (the handle is the top layer's)
	if len(c.Layers) > 0 && c.Layers[len(c.Layers)-1] == "wrapErrorWithRetry" && len(nodes) >= 2 && nodes[len(nodes)-2] != io.EOF {
		if _, ok := top.(ErrorWithRetry); !ok && top != io.EOF {
			vFailf(tb, nil, "wrapErrorWithRetry result does not implement ErrorWithRetry: %T", top)
		}
	}
	_ = top.Error()
	labels := []string{fmt.Sprintf("chain:depth=%d", len(c.Layers))}
	vCount("C19", len(c.Layers) >= 2 && libWrappers >= 1, vJSON(c), labels, func() interface{} { return c })
}

func TestVerifC19_Chains(t *testing.T) {
	vRun(t, "C19", vOpts{}, c19ChainGen, c19ChainRun)
}

// ---------------------------------------------------------------------------
// part 2: ErrorWithRetry

type c19Fail struct {
	Pkt   int    `json:"pkt"`   // index of the request-level packet (PUBLISH/PUBREL/SUBSCRIBE/UNSUBSCRIBE) of this attempt
	Write bool   `json:"write"` // true: that packet's Transport.Write fails; false: it is processed but its answer withheld
	Cause string `json:"cause"` // writeerr | closed | cancel
}

type c19RetryCase struct {
	Kind     string    `json:"kind"` // pub1 pub2 sub unsub
	Topic    string    `json:"topic"`
	Payload  []byte    `json:"payload"`
	Retain   bool      `json:"retain"`
	ID       int       `json:"id"`
	Subs     []c05Sub  `json:"subs,omitempty"`
	Fails    []c19Fail `json:"fails"`              // one interruption per client; after them a healthy client
	StaleDup bool      `json:"staleDup,omitempty"` // the application's Message has Dup=true left over (forwarded / re-used message)
	// PreConnect: the request is first made on a client that was never connected (it fails there without touching the
	// wire); if that error offers a retry handle the handle is what is used from then on
	PreConnect bool `json:"preConnect,omitempty"`
}

var errC19Write = errors.New("verif: injected transport write failure")

// c19ManualCtx is a context whose deadline "passes" when the harness says so.
type c19ManualCtx struct {
	mu   sync.Mutex
	done chan struct{}
	err  error
}

func (c *c19ManualCtx) Deadline() (time.Time, bool)       { return time.Time{}, false }
func (c *c19ManualCtx) Done() <-chan struct{}             { return c.done }
func (c *c19ManualCtx) Value(key interface{}) interface{} { return nil }
func (c *c19ManualCtx) Err() error {
	c.mu.Lock()
	defer c.mu.Unlock()
	return c.err
}
func (c *c19ManualCtx) expire() {
	c.mu.Lock()
	defer c.mu.Unlock()
	if c.err == nil {
		c.err = context.DeadlineExceeded
		close(c.done)
	}
}

func c19IsReqType(t int) bool {
	return t == rtPublish || t == rtPubRel || t == rtSubscribe || t == rtUnsubscribe
}

// c19Attempt runs do() against a fresh rig with (at most) one interruption; returns the
// error, the packets the client emitted and whether the interruption fired.
func c19Attempt(tb rapid.TB, c c19RetryCase, f *c19Fail, do func(ctx context.Context, cli *BaseClient) error) (error, []refPacket, []refPacket, *baseRig, bool) {
	r := newBaseRig()
	var ctx context.Context
	var cancel func()
	cause := ""
	if f != nil {
		cause = f.Cause
	}
	switch cause {
	case "cancelCauseEOF", "cancelCauseApp":
		// a context cancelled with an explicit cause: its Err() is still context.Canceled
		cctx, cc := context.WithCancelCause(context.Background())
		ctx = cctx
		cancel = func() {
			if cause == "cancelCauseEOF" {
				cc(io.EOF)
			} else {
				cc(errors.New("verif: the application gave up"))
			}
		}
		defer cc(nil)
	case "deadline":
		// a context whose deadline passes exactly at the interruption point (a Context of our own: the moment is ours)
		mc := &c19ManualCtx{done: make(chan struct{})}
		ctx, cancel = mc, mc.expire
	default:
		cctx, cc := context.WithCancel(context.Background())
		ctx, cancel = cctx, cc
		defer cc()
	}
	fired := false // guarded by r.peer.mu
	if f != nil {
		nW, nP := 0, 0
		if f.Write {
			r.peer.failWrite = func(b []byte) error {
				if c19IsReqType(int(b[0] >> 4)) {
					nW++
					if nW-1 == f.Pkt {
						fired = true
						return errC19Write
					}
				}
				return nil
			}
			r.peer.auto = bpeerBrokerAuto
		} else {
			r.peer.auto = func(p *bpeer, pk refPacket) {
				if c19IsReqType(pk.Type) {
					nP++
					if nP-1 == f.Pkt {
						fired = true
						if f.Cause == "closed" {
							go r.conn.peerClose(false)
						} else if f.Cause != "preCancel" {
							go cancel()
						}
						return // answer withheld
					}
				}
				bpeerBrokerAuto(p, pk)
			}
		}
	} else {
		r.peer.auto = bpeerBrokerAuto
	}
	r.connect(tb)
	before := len(r.peer.emittedPackets())
	beforeRecv := len(r.peer.received())
	if cause == "preCancel" {
		cancel() // the context is already done when the call is made (the request's first packet is answered by nothing)
	}
	errCh := make(chan error, 1)
	go func() { errCh <- do(ctx, r.cli) }()
	var err error
	select {
	case err = <-errCh:
	case <-time.After(20 * time.Second):
		vFailf(tb, map[string]interface{}{"log": r.log.strings(40), "goroutines": vGoroutineDump()}, "call did not return after interruption %+v", f)
	}
	r.peer.mu.Lock()
	fd := fired
	r.peer.mu.Unlock()
	return err, r.peer.emittedPackets()[before:], r.peer.received()[beforeRecv:], r, fd
}

func c19RetryRun(tb rapid.TB, c c19RetryCase) { c19RetryRunProp(tb, c, "C19") }

// c19RetryRunProp drives one request through a chain of interrupted clients via its retry
// handle. prop C19 checks that the handle exists and re-issues the same request; prop C12
// additionally checks "no PUBLISH once a PUBREL was written".
func c19RetryRunProp(tb rapid.TB, c c19RetryCase, prop string) {
	payload := append([]byte{}, c.Payload...)
	msg := &Message{Topic: c.Topic, Payload: payload, Retain: c.Retain, ID: uint16(c.ID), Dup: c.StaleDup}
	subs := make([]Subscription, len(c.Subs))
	filters := make([]string, len(c.Subs))
	for i, s := range c.Subs {
		subs[i] = Subscription{Topic: s.Filter, QoS: QoS(s.QoS)}
		filters[i] = s.Filter
	}
	first := func(ctx context.Context, cli *BaseClient) error {
		switch c.Kind {
		case "pub1":
			msg.QoS = QoS1
			return cli.Publish(ctx, msg)
		case "pub2":
			msg.QoS = QoS2
			return cli.Publish(ctx, msg)
		case "sub":
			_, err := cli.Subscribe(ctx, subs...)
			return err
		}
		return cli.Unsubscribe(ctx, filters...)
	}
	do := first
	if c.PreConnect {
		r0 := newBaseRig()
		perr := first(context.Background(), r0.cli)
		if perr == nil {
			r0.shutdown()
			vFailf(tb, nil, "%s on a client that was never connected returned nil", c.Kind)
		}
		if n := len(r0.peer.received()); n != 0 {
			r0.shutdown()
			vFailf(tb, nil, "%s on a client that was never connected wrote %d packets", c.Kind, n)
		}
		if re, ok := perr.(ErrorWithRetry); ok {
			do = func(ctx context.Context, cli *BaseClient) error { return re.Retry(ctx, cli) }
		}
		r0.shutdown()
	}
	var firstPub *refPacket
	relSent := false // a PUBREL was written successfully at some point
	var rigs []*baseRig
	defer func() {
		for _, r := range rigs {
			r.shutdown()
		}
	}()
	for attempt := 0; attempt <= len(c.Fails); attempt++ {
		var f *c19Fail
		if attempt < len(c.Fails) {
			f = &c.Fails[attempt]
		}
		err, pkts, delivered, r, fired := c19Attempt(tb, c, f, do)
		rigs = append(rigs, r)
		if !fired {
			f = nil // the exchange needed fewer packets than the interruption point: it must simply succeed
		}
		fail := func(format string, args ...interface{}) {
			vFailf(tb, map[string]interface{}{"attempt": attempt, "interruption": f, "emitted": fmt.Sprint(pkts), "err": fmt.Sprint(err)}, format, args...)
		}
		if r.peer.frameErr != nil {
			fail("attempt %d: ill-formed packet emitted: %v", attempt, r.peer.frameErr)
		}
		// ---- what was emitted
		if attempt > 0 {
			switch c.Kind {
			case "pub1", "pub2":
				if len(pkts) == 0 {
					fail("attempt %d: Retry emitted nothing", attempt)
				}
				p0 := pkts[0]
				switch {
				case p0.Type == rtPublish:
					if relSent && prop == "C12" {
						fail("attempt %d: PUBLISH re-sent although PUBREL for this message had already been written", attempt)
					}
					if !p0.Dup || p0.ID != firstPub.ID || p0.Topic != firstPub.Topic || !bytes.Equal(p0.Payload, firstPub.Payload) || p0.QoS != firstPub.QoS || p0.Retain != firstPub.Retain {
						fail("attempt %d: Retry re-sent %v, the first transmission was %v (want identical with DUP=1)", attempt, p0, *firstPub)
					}
				case p0.Type == rtPubRel && c.Kind == "pub2":
					if p0.ID != firstPub.ID {
						fail("attempt %d: Retry sent PUBREL id %d for a message first sent with id %d", attempt, p0.ID, firstPub.ID)
					}
				default:
					fail("attempt %d: Retry emitted %v first, expected the PUBLISH again or its PUBREL", attempt, p0)
				}
			case "sub":
				if len(pkts) != 1 || pkts[0].Type != rtSubscribe || len(pkts[0].Filters) != len(c.Subs) {
					fail("attempt %d: Retry emitted %v, want one SUBSCRIBE with %d filters", attempt, pkts, len(c.Subs))
				}
				for i, s := range c.Subs {
					if pkts[0].Filters[i] != s.Filter || pkts[0].QoSs[i] != s.QoS {
						fail("attempt %d: re-issued SUBSCRIBE filter %d = (%q, q%d), request was (%q, q%d)", attempt, i, pkts[0].Filters[i], pkts[0].QoSs[i], s.Filter, s.QoS)
					}
				}
			case "unsub":
				if len(pkts) != 1 || pkts[0].Type != rtUnsubscribe || fmt.Sprint(pkts[0].Filters) != fmt.Sprint(filters) {
					fail("attempt %d: Retry emitted %v, want one UNSUBSCRIBE %q", attempt, pkts, filters)
				}
			}
		} else if c.Kind == "pub1" || c.Kind == "pub2" {
			// first transmission (may be absent from the peer's record when the write itself failed)
			fp := refPacket{Type: rtPublish, ID: int(msg.ID), Topic: c.Topic, Payload: payload, QoS: int(msg.QoS), Retain: c.Retain}
			if len(pkts) > 0 && pkts[0].Type == rtPublish {
				fp = pkts[0]
				if fp.Dup {
					fail("first transmission has DUP=1")
				}
			}
			firstPub = &fp
		}
		for _, p := range delivered {
			if p.Type == rtPubRel {
				relSent = true // written successfully (a PUBREL whose Write failed does not count)
			}
		}
		// ---- the error
		if f == nil {
			if err != nil {
				fail("attempt %d on a healthy client failed: %v", attempt, err)
			}
			break
		}
		if err == nil {
			fail("attempt %d: call returned nil although it was interrupted (%+v)", attempt, *f)
		}
		var want error
		switch f.Cause {
		case "writeerr":
			want = errC19Write
		case "closed":
			want = ErrClosedTransport
		case "cancel", "cancelCauseEOF", "cancelCauseApp", "preCancel":
			want = context.Canceled
		case "deadline":
			want = context.DeadlineExceeded
		}
		if !errors.Is(err, want) {
			fail("attempt %d: interrupted by %+v, errors.Is(err, %v) is false; err = %v", attempt, *f, want, err)
		}
		for i, s := range c19Sentinels {
			if s != want && errors.Is(err, s) && !(f.Cause == "closed" && (s == io.EOF || s == io.ErrClosedPipe)) {
				fail("attempt %d: errors.Is(err, %s) is true for an interruption by %+v (err = %v)", attempt, c19SentinelNames[i], *f, err)
			}
		}
		re, ok := err.(ErrorWithRetry)
		if !ok {
			fail("attempt %d: error of an interrupted %s does not implement ErrorWithRetry: %T %v", attempt, c.Kind, err, err)
		}
		do = func(ctx context.Context, cli *BaseClient) error { return re.Retry(ctx, cli) }
	}
	labels := []string{"retry:" + c.Kind}
	for _, f := range c.Fails {
		labels = append(labels, fmt.Sprintf("retry:%s:pkt%d:%s", c.Kind, f.Pkt, f.Cause))
	}
	nontrivial := true
	if prop == "C12" {
		nontrivial = (c.Kind == "pub1" || c.Kind == "pub2") && len(c.Fails) >= 1
	}
	vCount(prop, nontrivial, vJSON(c), labels, func() interface{} { return c })
}

func c19GenFail(rt *rapid.T, kind string) c19Fail {
	f := c19Fail{}
	if kind == "pub2" {
		f.Pkt = rapid.IntRange(0, 1).Draw(rt, "pkt")
	}
	f.Cause = rapid.SampledFrom([]string{"writeerr", "closed", "cancel", "cancel", "cancelCauseEOF", "cancelCauseApp", "deadline", "preCancel"}).Draw(rt, "cause")
	f.Write = f.Cause == "writeerr"
	if f.Cause == "preCancel" {
		f.Pkt = 0 // the call starts with its context already done
	}
	return f
}

func c19RetryGen(rt *rapid.T) c19RetryCase {
	c := c19RetryCase{Kind: rapid.SampledFrom([]string{"pub1", "pub2", "pub2", "sub", "unsub"}).Draw(rt, "kind")}
	switch c.Kind {
	case "pub1", "pub2":
		c.Topic = refGenTopic(rt, "t")
		c.Payload = rapid.SliceOfN(rapid.Byte(), 0, 40).Draw(rt, "payload")
		c.Retain = rapid.Bool().Draw(rt, "retain")
		if rapid.Bool().Draw(rt, "fixID") {
			c.ID = rapid.IntRange(1, 65535).Draw(rt, "id")
		}
	default:
		n := rapid.IntRange(1, 4).Draw(rt, "n")
		for i := 0; i < n; i++ {
			c.Subs = append(c.Subs, c05Sub{Filter: rapid.SampledFrom(c05ValidFilters).Draw(rt, "f"), QoS: rapid.IntRange(0, 2).Draw(rt, "q")})
		}
	}
	nf := rapid.IntRange(1, 3).Draw(rt, "nFails")
	for i := 0; i < nf; i++ {
		c.Fails = append(c.Fails, c19GenFail(rt, c.Kind))
	}
	c.PreConnect = rapid.IntRange(0, 3).Draw(rt, "preConnect") == 0
	return c
}

func TestVerifC19_Retry(t *testing.T) {
	vRun(t, "C19", vOpts{CurFile: true}, c19RetryGen, c19RetryRun)
}

// TestVerifC12_RetryHandle: the base client's retry handle obeys the retransmission rules
// (same id/content, DUP=1, no PUBLISH after a PUBREL that was written).
func TestVerifC12_RetryHandle(t *testing.T) {
	vRun(t, "C12", vOpts{CurFile: true}, func(rt *rapid.T) c19RetryCase {
		c := c19RetryCase{Kind: rapid.SampledFrom([]string{"pub1", "pub2", "pub2", "pub2"}).Draw(rt, "kind")}
		c.Topic = refGenTopic(rt, "t")
		c.Payload = rapid.SliceOfN(rapid.Byte(), 0, 40).Draw(rt, "payload")
		c.Retain = rapid.Bool().Draw(rt, "retain")
		if rapid.Bool().Draw(rt, "fixID") {
			c.ID = rapid.IntRange(1, 65535).Draw(rt, "id")
		}
		nf := rapid.IntRange(1, 5).Draw(rt, "nFails")
		for i := 0; i < nf; i++ {
			c.Fails = append(c.Fails, c19GenFail(rt, c.Kind))
		}
		c.StaleDup = rapid.IntRange(0, 2).Draw(rt, "staleDup") == 0
		c.PreConnect = rapid.IntRange(0, 2).Draw(rt, "preConnect") == 0
		return c
	}, func(tb rapid.TB, c c19RetryCase) { c19RetryRunProp(tb, c, "C12") })
}

// ---------------------------------------------------------------------------
// part 4: the error of ReconnectClient.Connect when the caller's context ends before the first connection

type c19ConnCase struct {
	Attempts []c09Attempt `json:"attempts"` // failing attempts (dialErr with flavour, refuse with code) before the context ends
	Cause    string       `json:"cause"`    // cancel | cancelCauseEOF | cancelCauseApp | deadline
}

func TestVerifC19_ConnectCancel(t *testing.T) {
	vRun(t, "C19", vOpts{CurFile: true}, func(rt *rapid.T) c19ConnCase {
		c := c19ConnCase{Cause: rapid.SampledFrom([]string{"cancel", "cancelCauseEOF", "cancelCauseApp", "deadline"}).Draw(rt, "cause")}
		c.Attempts = rapid.SliceOfN(rapid.Custom(func(rt *rapid.T) c09Attempt {
			if rapid.Bool().Draw(rt, "refuse") {
				return c09Attempt{Outcome: "refuse", Code: rapid.IntRange(1, 5).Draw(rt, "code")}
			}
			return c09Attempt{Outcome: "dialErr", Code: rapid.IntRange(0, 2).Draw(rt, "dialErrKind")}
		}), 0, 4).Draw(rt, "attempts")
		return c
	}, func(tb rapid.TB, c c19ConnCase) {
		log := &vLog{}
		var plan []e4Fault
		for i, a := range c.Attempts {
			plan = append(plan, e4Fault{Kind: a.Outcome, Conn: i + 1, Code: a.Code})
		}
		b := newVBroker(log, true, false, plan)
		d := &vdialer{b: b}
		d.holdFrom, d.holdGate = len(c.Attempts)+1, make(chan struct{}) // the attempt after the scripted ones never gets a transport
		cliI, err := NewReconnectClient(d, WithReconnectWait(200*time.Microsecond, time.Millisecond), WithTimeout(2*time.Second))
		if err != nil {
			tb.Fatalf("harness: %v", err)
		}
		var ctx context.Context
		var end func()
		want := context.Canceled
		switch c.Cause {
		case "cancelCauseEOF", "cancelCauseApp":
			cctx, cc := context.WithCancelCause(context.Background())
			ctx = cctx
			end = func() {
				if c.Cause == "cancelCauseEOF" {
					cc(io.EOF)
				} else {
					cc(errors.New("verif: the application gave up"))
				}
			}
			defer cc(nil)
		case "deadline":
			mc := &c19ManualCtx{done: make(chan struct{})}
			ctx, end, want = mc, mc.expire, context.DeadlineExceeded
		default:
			cctx, cc := context.WithCancel(context.Background())
			ctx, end = cctx, cc
			defer cc()
		}
		ret := make(chan error, 1)
		go func() {
			_, err := cliI.Connect(ctx, "verif-c19")
			ret <- err
		}()
		fail := func(format string, args ...interface{}) {
			end()
			d.release()
			vFailf(tb, map[string]interface{}{"trace": log.strings(80)}, format, args...)
		}
		if !vWaitUntil(20*time.Second, func() bool { return d.dialCount() >= len(c.Attempts)+1 }) {
			fail("the reconnect loop made only %d of %d dial attempts\n%s", d.dialCount(), len(c.Attempts)+1, vGoroutineDump())
		}
		end()
		var cerr error
		select {
		case cerr = <-ret:
		case <-time.After(20 * time.Second):
			fail("Connect did not return after its context ended\n%s", vGoroutineDump())
		}
		d.release()
		refused := 0
		for _, a := range c.Attempts {
			if a.Outcome == "refuse" {
				refused++
			}
		}
		vCount("C19", len(c.Attempts) >= 1, vJSON(c), []string{"connect-cancel:" + c.Cause, fmt.Sprintf("connect-cancel:refused=%d", minInt(refused, 2))}, func() interface{} { return c })
		if cerr == nil {
			fail("Connect returned nil although its context ended before any connection was established")
		}
		if !errors.Is(cerr, want) {
			fail("Connect's context ended (%s) after %d failed attempts %v: errors.Is(err, %v) is false; err = %v", c.Cause, len(c.Attempts), c.Attempts, want, cerr)
		}
		other := context.DeadlineExceeded
		if want == context.DeadlineExceeded {
			other = context.Canceled
		}
		// (not demanded when a dial attempt itself failed with a context error: an implementation may keep that in the chain)
		ctxDial := false
		for _, a := range c.Attempts {
			if a.Outcome == "dialErr" && a.Code != 0 {
				ctxDial = true
			}
		}
		if !ctxDial && errors.Is(cerr, other) {
			fail("Connect's context ended with %v, but errors.Is(err, %v) is true; err = %v", want, other, cerr)
		}
		dctx, dc := context.WithTimeout(context.Background(), 5*time.Second)
		_ = cliI.Disconnect(dctx)
		dc()
	})
}

// ---------------------------------------------------------------------------
// part 5: RetryClient.Ping - the one request of the retrying client that runs under the caller's own context

type c19PingCase struct {
	RespTimeoutMs int    `json:"respTimeoutMs"` // 0 none, 5 expires, 60000 never expires within the case
	End           string `json:"end"`           // cancel | cancelCauseEOF | cancelCauseApp | deadline | "" (wait for the response timeout)
}

func TestVerifC19_RetryPing(t *testing.T) {
	vRun(t, "C19", vOpts{CurFile: true}, func(rt *rapid.T) c19PingCase {
		c := c19PingCase{RespTimeoutMs: rapid.SampledFrom([]int{0, 60000, 60000, 5}).Draw(rt, "respTimeoutMs")}
		if c.RespTimeoutMs != 5 {
			c.End = rapid.SampledFrom([]string{"cancel", "cancelCauseEOF", "cancelCauseApp", "deadline"}).Draw(rt, "end")
		}
		return c
	}, func(tb rapid.TB, c c19PingCase) {
		r := newBaseRig()
		defer r.shutdown()
		r.connect(tb)
		r.peer.mu.Lock()
		r.peer.auto = func(p *bpeer, pk refPacket) {} // from now on the peer answers nothing, PINGREQ included
		r.peer.mu.Unlock()
		rc := &RetryClient{ResponseTimeout: time.Duration(c.RespTimeoutMs) * time.Millisecond}
		rc.mu.Lock()
		rc.cli = r.cli // (in-package: a connected client, no task goroutine needed for Ping)
		rc.mu.Unlock()
		var ctx context.Context
		var end func()
		want := context.Canceled
		switch c.End {
		case "cancelCauseEOF", "cancelCauseApp":
			cctx, cc := context.WithCancelCause(context.Background())
			ctx = cctx
			end = func() {
				if c.End == "cancelCauseEOF" {
					cc(io.EOF)
				} else {
					cc(errors.New("verif: the application gave up"))
				}
			}
			defer cc(nil)
		case "deadline":
			mc := &c19ManualCtx{done: make(chan struct{})}
			ctx, end, want = mc, mc.expire, context.DeadlineExceeded
		default:
			cctx, cc := context.WithCancel(context.Background())
			ctx, end = cctx, cc
			defer cc()
		}
		ret := make(chan error, 1)
		go func() { ret <- rc.Ping(ctx) }()
		if !r.peer.waitRecv(20*time.Second, func(pk refPacket) bool { return pk.Type == rtPingReq }, 1) {
			vFailf(tb, r.log.strings(20), "PINGREQ not written")
		}
		if c.End != "" {
			end()
		}
		var err error
		select {
		case err = <-ret:
		case <-time.After(20 * time.Second):
			vFailf(tb, map[string]interface{}{"goroutines": vGoroutineDump()}, "RetryClient.Ping did not return (%+v)", c)
		}
		vCount("C19", true, vJSON(c), []string{fmt.Sprintf("retry-ping:timeout=%d,end=%s", c.RespTimeoutMs, c.End)}, func() interface{} { return c })
		if err == nil {
			vFailf(tb, nil, "RetryClient.Ping returned nil although no PINGRESP was ever sent (%+v)", c)
		}
		var rte *RequestTimeoutError
		if c.End == "" {
			// the response timeout expired: identifiable as such
			if !errors.As(err, &rte) {
				vFailf(tb, nil, "the response timeout (%d ms) expired during Ping, but errors.As(err, *RequestTimeoutError) is false; err = %v", c.RespTimeoutMs, err)
			}
			return
		}
		other := context.DeadlineExceeded
		if want == context.DeadlineExceeded {
			other = context.Canceled
		}
		if errors.Is(err, other) {
			vFailf(tb, nil, "the caller's context ended with %v (response timeout %d ms not expired), but errors.Is(err, %v) is true; err = %v", want, c.RespTimeoutMs, other, err)
		}
		if !errors.Is(err, want) {
			vFailf(tb, nil, "the caller's context ended with %v, errors.Is(err, %v) is false; err = %v", want, want, err)
		}
	})
}
