//go:build verif

package mqtt

// Oracles over the trace of an E4 run (C01, C02, C03, C12 share the generator domain).

import (
	"bytes"
	"fmt"
	"strconv"
	"strings"
)

func e4IdxOfTag(tag string) int {
	switch {
	case strings.HasPrefix(tag, "m"):
		n, _ := strconv.Atoi(tag[1:])
		return n
	case strings.HasPrefix(tag, "u/"):
		n, _ := strconv.Atoi(tag[2:])
		return n
	}
	return 0
}

func e4Emitted(e vEvent) bool { return (e.Kind == "W" || e.Kind == "W-LOST") && e.Pkt != nil }

func e4IsFaultEvent(e vEvent) bool {
	return e.Kind == "CUT" || e.Kind == "DIAL-ERR" || e.Kind == "B-DROPPED" || (e.Kind == "B" && e.Pkt != nil && e.Pkt.Type == rtConnAck && e.Pkt.Code != 0)
}

// e4PendingAtFaults counts, over all fault events, the largest number of accepted QoS>=1 /
// sub / unsub requests that were submitted but not yet acknowledged when the fault fired.
func e4PendingAtFaults(r *e4Result) (maxPending int, faults int) {
	ackSeq := map[string]int64{}
	for _, e := range r.Log {
		if e.Kind == "B" && e.Note != "" {
			if _, ok := ackSeq[e.Note]; !ok {
				ackSeq[e.Note] = e.Seq
			}
		}
	}
	for _, e := range r.Log {
		if !e4IsFaultEvent(e) {
			continue
		}
		faults++
		n := 0
		for _, q := range r.Reqs {
			if q.Err != nil || (q.Kind == "pub" && q.QoS == 0) || q.Seq > e.Seq {
				continue
			}
			if a, ok := ackSeq[q.Tag]; !ok || a > e.Seq {
				n++
			}
		}
		if n > maxPending {
			maxPending = n
		}
	}
	return
}

// ---- C01

func e4OracleC01(r *e4Result) string {
	if r.Stuck {
		return "the client is idle although accepted requests are still unacknowledged or queued (nothing happened for 3 s on a reachable broker): " + e4Undone(r)
	}
	if !r.Quiesced {
		return ""
	}
	for _, q := range r.Reqs {
		if q.Err != nil || (q.Kind == "pub" && q.QoS == 0) {
			continue
		}
		if _, ok := r.Acked[q.Tag]; !ok {
			return fmt.Sprintf("accepted request %s (idx %d, q%d) was never acknowledged by the broker although the client is idle", q.Kind, q.Idx, q.QoS)
		}
	}
	return ""
}

func e4Undone(r *e4Result) string {
	var s []string
	for _, q := range r.Reqs {
		if q.Err != nil || (q.Kind == "pub" && q.QoS == 0) {
			continue
		}
		if _, ok := r.Acked[q.Tag]; !ok {
			s = append(s, fmt.Sprintf("%s idx %d q%d", q.Kind, q.Idx, q.QoS))
		}
	}
	return fmt.Sprintf("unacknowledged: %v; stats %+v", s, r.Stats)
}

// ---- C02

func e4OracleC02(r *e4Result) string {
	c := r.Case.Cfg
	persistent := c.SessionKept && !c.CleanSession
	connAlive := map[int]bool{}
	for _, bc := range r.Conns {
		connAlive[bc.id] = !bc.dead
	}
	for _, e := range r.Log {
		if e.Kind == "CLOSE-LOCAL" || e.Kind == "CLOSE-PEER" || e.Kind == "CUT" {
			connAlive[e.Conn] = false // (also a connection the client closed itself, e.g. after a response timeout)
		}
	}
	lastClientPkt := map[int]int64{}
	for _, e := range r.Log {
		if e4Emitted(e) {
			lastClientPkt[e.Conn] = e.Seq
		}
	}
	q2ID := map[string]int{}
	for _, e := range r.Log {
		if e4Emitted(e) && e.Pkt.Type == rtPublish && e.Pkt.QoS == 2 {
			q2ID[vTagOf(*e.Pkt)] = e.Pkt.ID
		}
	}
	// (2) silence after completion
	late := map[string]bool{} // "conn/id": that PUBCOMP was sent late (after the waiter may have given up): nothing follows from it
	for _, e := range r.Log {
		if e.Kind == "B-LATE" && e.Pkt != nil && e.Pkt.Type == rtPubComp {
			late[fmt.Sprintf("%d/%d", e.Conn, e.Pkt.ID)] = true
		}
	}
	for _, e := range r.Log {
		if e.Kind != "B" || e.Pkt == nil || e.Pkt.Type != rtPubComp || e.Note == "" || late[fmt.Sprintf("%d/%d", e.Conn, e.Pkt.ID)] {
			continue
		}
		consumed := lastClientPkt[e.Conn] > e.Seq || (r.Quiesced && connAlive[e.Conn])
		if !consumed {
			continue
		}
		// With a response timeout that can fire, the waiter may give up at the very moment its PUBCOMP becomes readable
		// (both are ready, either may win): an error reported for "waiting PUBCOMP" after the acknowledgement and before the
		// client's next packet on that connection means the acknowledgement was not what the publisher acted on.
		gaveUp := false
		var nextPkt int64 = 1 << 62
		for _, l := range r.Log {
			if l.Seq > e.Seq && l.Conn == e.Conn && e4Emitted(l) {
				nextPkt = l.Seq
				break
			}
		}
		for _, l := range r.Log {
			if l.Kind == "ONERROR" && l.Seq > e.Seq && l.Seq < nextPkt && strings.Contains(l.Note, "waiting PUBCOMP") {
				gaveUp = true
			}
		}
		if gaveUp {
			continue
		}
		idStillOurs := true // a later message may legitimately be given the same identifier (every connection has its own counter)
		for _, l := range r.Log {
			if l.Seq <= e.Seq || !e4Emitted(l) {
				continue
			}
			if l.Pkt.Type == rtPublish && l.Pkt.ID == e.Pkt.ID && vTagOf(*l.Pkt) != e.Note {
				idStillOurs = false
			}
			if l.Pkt.Type == rtPubRel && !idStillOurs {
				continue
			}
			if l.Pkt.Type == rtPublish && vTagOf(*l.Pkt) == e.Note {
				return fmt.Sprintf("message %s: PUBLISH transmitted again (#%d on c%d) after its PUBCOMP had been received (#%d on c%d)", e.Note, l.Seq, l.Conn, e.Seq, e.Conn)
			}
			if l.Pkt.Type == rtPubRel && l.Pkt.ID == q2ID[e.Note] && l.Pkt.ID == e.Pkt.ID {
				return fmt.Sprintf("message %s: PUBREL transmitted again (#%d on c%d) after its PUBCOMP had been received (#%d on c%d)", e.Note, l.Seq, l.Conn, e.Seq, e.Conn)
			}
		}
	}
	// (1) exactly once onward. A client that is provably idle (stuck detector) with a QoS2 message
	// that was never delivered has delivered it zero times for good.
	if persistent && r.Stuck {
		count := map[string]int{}
		for _, d := range r.Deliver {
			count[d.Tag]++
		}
		for _, q := range r.Reqs {
			if q.Err == nil && q.Kind == "pub" && q.QoS == 2 && count[q.Tag] == 0 {
				return fmt.Sprintf("QoS2 message %s (idx %d) was never delivered onward and the client is idle (nothing happened for 3 s on a reachable broker): %s", q.Tag, q.Idx, e4Undone(r))
			}
		}
	}
	if persistent && r.Quiesced {
		count := map[string]int{}
		for _, d := range r.Deliver {
			count[d.Tag]++
		}
		for _, q := range r.Reqs {
			if q.Err == nil && q.Kind == "pub" && q.QoS == 2 && count[q.Tag] != 1 {
				return fmt.Sprintf("QoS2 message %s (idx %d) was delivered onward %d times by a session-keeping broker", q.Tag, q.Idx, count[q.Tag])
			}
		}
	}
	return ""
}

// e4C02Positions labels which of the four exchange positions were hit by a cut.
func e4C02Positions(r *e4Result) (labels []string, hitBetween bool) {
	seen := map[string]bool{}
	for i, e := range r.Log {
		var pk *refPacket
		lost := ""
		switch {
		case e.Kind == "W-LOST" && e.Pkt != nil:
			pk, lost = e.Pkt, "before-"
		case e.Kind == "B-LOST" && e.Pkt != nil:
			pk, lost = e.Pkt, "lost-"
		default:
			continue
		}
		_ = i
		switch pk.Type {
		case rtPublish:
			if pk.QoS == 2 {
				seen[lost+"PUBLISH"] = true
			}
		case rtPubRec, rtPubRel, rtPubComp:
			seen[lost+refTypeNames[pk.Type]] = true
			hitBetween = true
		}
	}
	for k := range seen {
		labels = append(labels, "c02:"+k)
	}
	return
}

// ---- C03

func e4OracleC03(r *e4Result) string {
	// (1) per connection
	lastIdx := map[int]int{}
	lastTag := map[int]string{}
	for _, e := range r.Log {
		if !e4Emitted(e) || e.Pkt.Type != rtPublish {
			continue
		}
		tag := vTagOf(*e.Pkt)
		if tag == "" || tag == lastTag[e.Conn] {
			continue
		}
		idx := e4IdxOfTag(tag)
		if idx < lastIdx[e.Conn] {
			return fmt.Sprintf("connection c%d: PUBLISH of message idx %d (#%d) after PUBLISH of message idx %d, against submission order", e.Conn, idx, e.Seq, lastIdx[e.Conn])
		}
		lastIdx[e.Conn], lastTag[e.Conn] = idx, tag
	}
	// (2) first transmissions over the whole run
	seen := map[string]bool{}
	last := 0
	for _, e := range r.Log {
		if !e4Emitted(e) {
			continue
		}
		if t := e.Pkt.Type; t != rtPublish && t != rtSubscribe && t != rtUnsubscribe {
			continue
		}
		tag := vTagOf(*e.Pkt)
		if tag == "" || seen[tag] {
			continue
		}
		seen[tag] = true
		idx := e4IdxOfTag(tag)
		if idx < last {
			return fmt.Sprintf("request idx %d is transmitted for the first time (#%d on c%d) after request idx %d, against submission order", idx, e.Seq, e.Conn, last)
		}
		last = idx
	}
	// (3) first deliveries of QoS>=1 messages
	first := map[string]bool{}
	last = 0
	for _, d := range r.Deliver {
		if d.QoS == 0 || d.Tag == "" || first[d.Tag] {
			continue
		}
		first[d.Tag] = true
		idx := e4IdxOfTag(d.Tag)
		if idx < last {
			return fmt.Sprintf("the broker first-delivers message idx %d (#%d) after message idx %d, against submission order", idx, d.Seq, last)
		}
		last = idx
	}
	return ""
}

// ---- C12

func e4OracleC12(r *e4Result) string {
	type st struct {
		first  *refPacket
		n      int
		relOK  bool
		relSeq int64
	}
	msgs := map[string]*st{}
	idTag := map[int]string{}
	for _, e := range r.Log {
		if !e4Emitted(e) {
			continue
		}
		switch e.Pkt.Type {
		case rtPublish:
			tag := vTagOf(*e.Pkt)
			if tag == "" {
				continue
			}
			m := msgs[tag]
			if m == nil {
				m = &st{}
				msgs[tag] = m
			}
			m.n++
			if m.n == 1 {
				cp := *e.Pkt
				m.first = &cp
				if e.Pkt.Dup {
					return fmt.Sprintf("message %s: first transmission (#%d) has DUP=1", tag, e.Seq)
				}
			} else {
				f := m.first
				if e.Pkt.QoS == 0 || f.QoS == 0 {
					return fmt.Sprintf("message %s: a QoS0 message was transmitted %d times (#%d)", tag, m.n, e.Seq)
				}
				if !e.Pkt.Dup {
					return fmt.Sprintf("message %s: retransmission (#%d on c%d) has DUP=0", tag, e.Seq, e.Conn)
				}
				if e.Pkt.ID != f.ID || e.Pkt.Topic != f.Topic || !bytes.Equal(e.Pkt.Payload, f.Payload) || e.Pkt.QoS != f.QoS || e.Pkt.Retain != f.Retain {
					return fmt.Sprintf("message %s: retransmission (#%d) %v differs from the first transmission %v", tag, e.Seq, *e.Pkt, *f)
				}
			}
			if m.relOK {
				return fmt.Sprintf("message %s: PUBLISH (#%d on c%d) after its PUBREL had been written (#%d)", tag, e.Seq, e.Conn, m.relSeq)
			}
			if e.Pkt.QoS == 2 {
				idTag[e.Pkt.ID] = tag
			}
		case rtPubRel:
			if tag, ok := idTag[e.Pkt.ID]; ok && e.Kind == "W" {
				if m := msgs[tag]; m != nil && !m.relOK {
					m.relOK, m.relSeq = true, e.Seq
				}
			}
		}
	}
	return ""
}

func e4MaxTransmissions(r *e4Result) int {
	n := map[string]int{}
	max := 0
	for _, e := range r.Log {
		if e4Emitted(e) && e.Pkt.Type == rtPublish {
			t := vTagOf(*e.Pkt)
			n[t]++
			if n[t] > max {
				max = n[t]
			}
		}
	}
	return max
}

// ---- C05 through the retrying client: emitted requests carry exactly the requested fields

func e4OracleC05(r *e4Result) string {
	req := map[string]e4Req{}
	for _, q := range r.Reqs {
		req[q.Tag] = q
	}
	for _, e := range r.Log {
		if !e4Emitted(e) {
			continue
		}
		if e.Pkt.Type == rtConnect {
			// what the application asked for in Connect, on every connection
			want := refPacket{Type: rtConnect, ProtoName: "MQTT", ProtoLevel: 4, ClientID: "verif-client", CleanSession: r.Case.Cfg.CleanSession, KeepAlive: r.Case.Cfg.KeepAliveS}
			got := *e.Pkt
			if got.ProtoName != want.ProtoName || got.ProtoLevel != want.ProtoLevel || got.ClientID != want.ClientID || got.CleanSession != want.CleanSession ||
				got.KeepAlive != want.KeepAlive || got.HasWill || got.HasUser || got.HasPass {
				return fmt.Sprintf("CONNECT #%d on c%d %v differs from what the application asked for (client id %q, clean session %v, keep-alive %d, no will, no credentials)", e.Seq, e.Conn, got, want.ClientID, want.CleanSession, want.KeepAlive)
			}
			continue
		}
		tag := vTagOf(*e.Pkt)
		q, ok := req[tag]
		if tag == "" || !ok {
			continue
		}
		s := q.Step
		switch e.Pkt.Type {
		case rtPublish:
			if q.Kind != "pub" {
				continue
			}
			if m := r.Case.Cfg.MaxPayload; m > 0 && len(e.Pkt.Payload) >= m {
				return fmt.Sprintf("PUBLISH #%d on c%d carries %d payload bytes although the client's MaxPayloadLen is %d: a message over the configured maximum must be rejected before anything is written (submitted as idx %d, Publish returned %v)", e.Seq, e.Conn, len(e.Pkt.Payload), m, s.Idx, q.Err)
			}
			if e.Pkt.Topic != s.Topic || !bytes.Equal(e.Pkt.Payload, e4Payload(s.Idx, s.Extra)) || e.Pkt.QoS != s.QoS || e.Pkt.Retain != s.Retain || (s.ID != 0 && s.QoS > 0 && e.Pkt.ID != s.ID) {
				return fmt.Sprintf("PUBLISH #%d on c%d %v differs from the submitted message idx %d {topic %q q%d retain %v id %d}", e.Seq, e.Conn, *e.Pkt, s.Idx, s.Topic, s.QoS, s.Retain, s.ID)
			}
		case rtSubscribe:
			if q.Kind != "sub" {
				continue
			}
			want := append([]c05Sub{{Filter: tag, QoS: s.QoS}}, s.Subs...)
			if len(e.Pkt.Filters) == 1 {
				// one filter: either the whole request or a re-subscription of one of its filters
				found := false
				for _, w := range want {
					if w.Filter == e.Pkt.Filters[0] && w.QoS == e.Pkt.QoSs[0] {
						found = true
					}
				}
				if !found {
					return fmt.Sprintf("SUBSCRIBE #%d on c%d %v does not correspond to the submitted request idx %d %v", e.Seq, e.Conn, *e.Pkt, s.Idx, want)
				}
				continue
			}
			if len(e.Pkt.Filters) != len(want) {
				return fmt.Sprintf("SUBSCRIBE #%d on c%d carries %d filters, the submitted request idx %d has %d", e.Seq, e.Conn, len(e.Pkt.Filters), s.Idx, len(want))
			}
			for i, w := range want {
				if e.Pkt.Filters[i] != w.Filter || e.Pkt.QoSs[i] != w.QoS {
					return fmt.Sprintf("SUBSCRIBE #%d on c%d %v differs from the submitted request idx %d %v", e.Seq, e.Conn, *e.Pkt, s.Idx, want)
				}
			}
		case rtUnsubscribe:
			if q.Kind != "unsub" {
				continue
			}
			want := []string{tag}
			for _, f := range s.Subs {
				want = append(want, f.Filter)
			}
			if fmt.Sprint(e.Pkt.Filters) != fmt.Sprint(want) {
				return fmt.Sprintf("UNSUBSCRIBE #%d on c%d %v differs from the submitted request idx %d %v", e.Seq, e.Conn, *e.Pkt, s.Idx, want)
			}
		}
	}
	for _, pe := range r.ProtoErrs {
		return "the retrying client emitted an ill-formed stream: " + pe
	}
	return ""
}

// ---- C08

// e4FoldSubs is the net effect of the application's accepted Subscribe/Unsubscribe calls.
func e4FoldSubs(r *e4Result) map[string]int {
	t := map[string]int{}
	for _, q := range r.Reqs {
		if q.Err != nil {
			continue
		}
		switch q.Kind {
		case "sub":
			t[q.Tag] = q.Step.QoS
			for _, f := range q.Step.Subs {
				t[f.Filter] = f.QoS
			}
		case "unsub":
			delete(t, q.Tag)
			for _, f := range q.Step.Subs {
				delete(t, f.Filter)
			}
		}
	}
	return t
}

func e4OracleC08(r *e4Result) string {
	if r.Stuck {
		return "the client is idle with requests undone: " + e4Undone(r)
	}
	// (2) no needless re-subscription
	firstOK := 0
	sessionPresent := map[int]bool{}
	for _, e := range r.Log {
		if e.Kind == "B" && e.Pkt != nil && e.Pkt.Type == rtConnAck && e.Pkt.Code == 0 {
			if firstOK == 0 {
				firstOK = e.Conn
			}
			sessionPresent[e.Conn] = e.Pkt.SessionPresent
		}
	}
	lastClientPkt := map[int]int64{}
	for _, e := range r.Log {
		if e4Emitted(e) {
			lastClientPkt[e.Conn] = e.Seq
		}
	}
	// Counting rule, per filter. Every SUBSCRIBE closure the client legitimately holds for a filter f stems from
	// one of two sources: an accepted Subscribe call naming f, or a re-subscription pass after a non-first CONNACK
	// that came without session (or with AlwaysResubscribe on) - and each such
	// CONNACK adds at most one more closure per filter, on top of the ones still queued.  A closure is discharged
	// when the SUBACK of a SUBSCRIBE carrying f was received.  So on a connection where nothing may be
	// re-subscribed, a SUBSCRIBE carrying f is in order only while fewer SUBACKs for f have been received than
	// closures were ever created for it.  (The single-filter re-subscription of a request's marker is
	// indistinguishable from the request itself, hence the count per filter and not per request.)
	obligations := map[string]int{}
	for _, q := range r.Reqs {
		if q.Kind != "sub" || q.Err != nil {
			continue
		}
		seen := map[string]bool{q.Tag: true}
		obligations[q.Tag]++
		for _, f := range q.Step.Subs {
			if !seen[f.Filter] {
				seen[f.Filter] = true
				obligations[f.Filter]++
			}
		}
	}
	type ackAt struct {
		seq     int64
		filters []string
	}
	var acks []ackAt                   // SUBACKs known to have been received, by the seq from which that is known
	subByID := map[string]*refPacket{} // "conn/id" -> SUBSCRIBE packet
	for i, e := range r.Log {
		if e4Emitted(e) && e.Pkt.Type == rtSubscribe {
			subByID[fmt.Sprintf("%d/%d", e.Conn, e.Pkt.ID)] = e.Pkt
		}
		if e.Kind == "B" && e.Pkt != nil && e.Pkt.Type == rtSubAck {
			p := subByID[fmt.Sprintf("%d/%d", e.Conn, e.Pkt.ID)]
			if p == nil {
				continue
			}
			// received for certain once the client wrote anything later on that connection - unless the waiter reported
			// in between that it gave up ("waiting SUBACK": a response timeout firing at the moment the SUBACK became
			// readable, or the link ending): then the request is still owed
			gaveUp := false
			for _, l := range r.Log[i+1:] {
				if l.Kind == "ONERROR" && strings.Contains(l.Note, "waiting SUBACK") {
					gaveUp = true
				}
				if l.Conn == e.Conn && e4Emitted(l) {
					if !gaveUp {
						acks = append(acks, ackAt{l.Seq, p.Filters})
					}
					break
				}
			}
		}
	}
	restorable := map[string]bool{}
	for f := range obligations {
		restorable[f] = true
	}
	for _, e := range r.Log {
		if e.Kind == "B" && e.Pkt != nil && e.Pkt.Type == rtConnAck && e.Pkt.Code == 0 && e.Conn != firstOK && (!e.Pkt.SessionPresent || r.Case.Cfg.AlwaysResub) {
			// Every filter the application ever names, not only those already on the wire: tasks pushed for an
			// earlier connection can still run ahead of this connection's Resubscribe, and what they attempt is
			// restored by it too.
			for f := range restorable {
				obligations[f]++
			}
		}
		if !e4Emitted(e) || e.Pkt.Type != rtSubscribe {
			continue
		}
		mustNotResub := e.Conn == firstOK || (sessionPresent[e.Conn] && !r.Case.Cfg.AlwaysResub)
		if !mustNotResub {
			continue
		}
		why := "on the first connection"
		if e.Conn != firstOK {
			why = "although the broker kept the session (session present) and AlwaysResubscribe is off"
		}
		done := map[string]bool{}
		for _, f := range e.Pkt.Filters {
			if done[f] {
				continue
			}
			done[f] = true
			received := 0
			for _, a := range acks {
				if a.seq > e.Seq {
					continue
				}
				for _, g := range a.filters {
					if g == f {
						received++
						break
					}
				}
			}
			if received >= obligations[f] {
				return fmt.Sprintf("SUBSCRIBE #%d on c%d %v carries filter %q, for which %d SUBACK(s) had already been received while only %d subscription(s) of it were ever due (Subscribe calls naming it + restores after session-less reconnects): a re-subscription %s", e.Seq, e.Conn, *e.Pkt, f, received, obligations[f], why)
			}
		}
	}
	// (1) convergence.  A session the broker dropped while its CONNACK (session present = 0) never reached the client
	// cannot be noticed: the next CONNACK reports the fresh, empty session as present.  Nothing can be demanded then.
	unseenLoss := false
	for _, e := range r.Log {
		if e.Kind != "SESSION-LOST" {
			continue
		}
		seen := false
		for _, l := range r.Log {
			if l.Conn == e.Conn && l.Kind == "STATE" && strings.HasPrefix(l.Note, "Active") {
				seen = true
			}
		}
		if !seen {
			unseenLoss = true
		}
	}
	if r.Quiesced && !unseenLoss {
		want := e4FoldSubs(r)
		for f, q := range want {
			if got, ok := r.Subs[f]; !ok || got != q {
				return fmt.Sprintf("at quiescence the broker has %s; the application's calls amount to %s (filter %q: broker %v/%v, calls q%d)", e4SubsString(r.Subs), e4SubsString(want), f, got, ok, q)
			}
		}
		for f := range r.Subs {
			if _, ok := want[f]; !ok {
				return fmt.Sprintf("at quiescence the broker still has filter %q subscribed, which the application's calls do not leave subscribed; broker %s, calls %s", f, e4SubsString(r.Subs), e4SubsString(want))
			}
		}
	}
	return ""
}

func e4SubsString(m map[string]int) string {
	var ks []string
	for k := range m {
		ks = append(ks, k)
	}
	sortStrings(ks)
	s := "{"
	for i, k := range ks {
		if i > 0 {
			s += " "
		}
		s += fmt.Sprintf("%s:q%d", k, m[k])
	}
	return s + "}"
}

func sortStrings(a []string) {
	for i := 1; i < len(a); i++ {
		for j := i; j > 0 && a[j] < a[j-1]; j-- {
			a[j], a[j-1] = a[j-1], a[j]
		}
	}
}
