//go:build verif

package mqtt

// C08 — broker-side subscriptions converge to the app's Subscribe/Unsubscribe calls.

import (
	"fmt"
	"testing"

	"pgregory.net/rapid"
)

var e4OptsC08 = e4GenOpts{MaxSteps: 12, QoSWeights: []int{2, 2, 2}, SubWeight: 22, MaxFaults: 5, AllowRefuse: false, Outages: true, PreConnect: true,
	FilterPool: []string{"a", "a", "b", "a/+", "a/b", "A", "a/B", "c/#", "c/d", c08Long("x"), c08Long("y"), c08Long("z/+"), c08Long("w/#")}, CutTypes: []int{rtConnect, rtPublish, rtSubscribe, rtSubscribe, rtUnsubscribe, rtUnsubscribe}, MaxConn: 4}

func c08Nontrivial(r *e4Result) (bool, []string) {
	// >= 1 reconnect after >= 1 acknowledged subscribe, and the history has a repeat, an unsubscribe, or a pending request at the reconnect
	var labels []string
	okConns := 0
	ackedSubBefore := false
	var firstAck int64
	for _, e := range r.Log {
		if e.Kind == "B" && e.Pkt != nil && e.Pkt.Type == rtSubAck && firstAck == 0 {
			firstAck = e.Seq
		}
		if e.Kind == "B" && e.Pkt != nil && e.Pkt.Type == rtConnAck && e.Pkt.Code == 0 {
			okConns++
			if okConns >= 2 && firstAck != 0 && firstAck < e.Seq {
				ackedSubBefore = true
			}
		}
	}
	seen := map[string]bool{}
	repeat, unsub := false, false
	for _, q := range r.Reqs {
		if q.Kind == "unsub" {
			unsub = true
		}
		if q.Kind == "sub" {
			for _, f := range q.Step.Subs {
				if seen[f.Filter] {
					repeat = true
				}
				seen[f.Filter] = true
			}
		}
	}
	pending, _ := e4PendingAtFaults(r)
	if repeat {
		labels = append(labels, "c08:repeated-filter")
	}
	if unsub {
		labels = append(labels, "c08:unsubscribe")
	}
	resub := false
	for _, e := range r.Log {
		if e4Emitted(e) && e.Pkt.Type == rtSubscribe && vTagOf(*e.Pkt) == "" {
			resub = true
		}
	}
	if resub {
		labels = append(labels, "c08:resubscribed")
	}
	cfg := r.Case.Cfg
	labels = append(labels, "c08:kept="+vB(cfg.SessionKept)+",always="+vB(cfg.AlwaysResub)+",clean="+vB(cfg.CleanSession))
	return ackedSubBefore && (repeat || unsub || pending >= 1), labels
}

func TestVerifC08_Subscriptions(t *testing.T) {
	vRun(t, "C08", vOpts{CurFile: true, ReplayReps: 25}, func(rt *rapid.T) e4Case {
		c := e4GenCase(rt, e4OptsC08)
		c.Cfg.SessionKept = rapid.Bool().Draw(rt, "kept2")
		if c.Cfg.SessionKept && !c.Cfg.CleanSession && rapid.Bool().Draw(rt, "loseOnce") {
			// a broker that keeps sessions but loses this one once (restart): re-subscription on that connection only
			c.Faults = append(c.Faults, e4Fault{Kind: "loseSession", Conn: rapid.IntRange(2, 3).Draw(rt, "loseAt")})
			if rapid.Bool().Draw(rt, "cutResub") {
				c.Faults = append(c.Faults, e4Fault{Kind: "cutType", Conn: c.Faults[len(c.Faults)-1].Conn, Type: rtSubscribe, Nth: rapid.IntRange(1, 3).Draw(rt, "cutNth"), After: rapid.Bool().Draw(rt, "cutAfter")})
			}
		}
		// most histories get 1..2 reconnects placed after a subscription was acknowledged (settle, then cut)
		nrec := rapid.IntRange(0, 2).Draw(rt, "reconnectsAfterAck")
		for k := 0; k < nrec; k++ {
			var subAt []int
			connectSeen := false
			for i, st := range c.Steps {
				if st.Kind == "connect" {
					connectSeen = true
				}
				if connectSeen && (st.Kind == "sub" || st.Kind == "unsub") {
					subAt = append(subAt, i)
				}
			}
			if len(subAt) == 0 {
				break
			}
			at := subAt[rapid.IntRange(0, len(subAt)-1).Draw(rt, "cutAfter")] + 1
			held := false
			for _, st := range c.Steps[:at] {
				if st.Kind == "holdDial" {
					held = true
				}
				if st.Kind == "releaseDial" {
					held = false
				}
			}
			if held {
				continue
			}
			ins := []e4Step{{Kind: "settle"}, {Kind: "cutNow"}}
			if rapid.Bool().Draw(rt, "gap") {
				ins = append(ins, e4Step{Kind: "sleepBase", Extra: rapid.IntRange(-100, 300).Draw(rt, "delta")})
			}
			c.Steps = append(c.Steps[:at], append(ins, c.Steps[at:]...)...)
		}
		return c
	}, func(tb rapid.TB, c e4Case) {
		e4Check(tb, "C08", c, e4OracleC08, c08Nontrivial)
	})
}

// TestVerifC08_Timeouts: the same convergence oracle when acknowledgements are silently dropped and a
// ResponseTimeout makes the client give up on that connection (requests time out instead of failing with the link).
func TestVerifC08_Timeouts(t *testing.T) {
	vRun(t, "C08", vOpts{CurFile: true, ReplayReps: 10}, func(rt *rapid.T) e4Case {
		o := e4OptsC08
		o.MaxFaults = 2
		c := e4GenCase(rt, o)
		c.Cfg.RespTimeoutMs = rapid.SampledFrom([]int{5, 10, 20}).Draw(rt, "respTimeoutMs2")
		c.Cfg.OnErrorSleepUs = 0
		n := rapid.IntRange(1, 3).Draw(rt, "nDrops")
		for i := 0; i < n; i++ {
			c.Faults = append(c.Faults, e4Fault{Kind: "dropAck", Conn: rapid.IntRange(1, i+2).Draw(rt, "dconn"),
				Type: rapid.SampledFrom([]int{rtSubAck, rtSubAck, rtUnsubAck, rtUnsubAck, rtPubAck, rtPubRec}).Draw(rt, "dack"), Nth: rapid.IntRange(1, 3).Draw(rt, "dnth")})
		}
		return c
	}, func(tb rapid.TB, c e4Case) {
		e4Check(tb, "C08", c, e4OracleC08, func(r *e4Result) (bool, []string) {
			nt, labels := c08Nontrivial(r)
			dropped := false
			for _, e := range r.Log {
				if e.Kind == "B-DROPPED" {
					dropped = true
				}
			}
			if dropped {
				labels = append(labels, "c08:ack-dropped")
			}
			return nt || dropped, labels
		})
	})
}

// TestVerifC08_Restore: the restore path by construction.  Several subscriptions of assorted sizes (a few bytes up to
// some hundred) are established, then the broker loses the session once or twice and the re-subscription pass itself is
// interrupted at a chosen SUBSCRIBE (before or after the broker saw it), with further calls arriving meanwhile.
func TestVerifC08_Restore(t *testing.T) {
	sizes := []int{0, 0, 20, 60, 90, 90, 120, 200, 250}
	vRun(t, "C08", vOpts{CurFile: true, ReplayReps: 25}, func(rt *rapid.T) e4Case {
		c := e4Case{Cfg: e4GenConfig(rt)}
		c.Cfg.SessionKept = true
		c.Cfg.CleanSession = false
		c.Cfg.AlwaysResub = rapid.IntRange(0, 5).Draw(rt, "always2") == 0
		nf := rapid.IntRange(2, 7).Draw(rt, "nFilters")
		var filters []c05Sub
		for i := 0; i < nf; i++ {
			pad := rapid.SampledFrom(sizes).Draw(rt, "pad")
			f := fmt.Sprintf("r%d", i)
			for len(f) < pad {
				f += "/0123456789abcdefghijklmnopqrstuvwxyz"
			}
			filters = append(filters, c05Sub{Filter: f, QoS: rapid.IntRange(0, 2).Draw(rt, "fq")})
		}
		steps := []e4Step{{Kind: "connect"}}
		for i := 0; i < len(filters); {
			n := rapid.IntRange(0, 2).Draw(rt, "perCall")
			if i+n > len(filters) {
				n = len(filters) - i
			}
			steps = append(steps, e4Step{Kind: "sub", QoS: rapid.IntRange(0, 2).Draw(rt, "mq"), Subs: append([]c05Sub{}, filters[i:i+n]...)})
			i += n
			if n == 0 && rapid.Bool().Draw(rt, "skipOne") {
				i++
			}
		}
		steps = append(steps, e4Step{Kind: "settle"}, e4Step{Kind: "cutNow"})
		// what the application does while the restore is under way / afterwards
		nl := rapid.IntRange(0, 4).Draw(rt, "nLater")
		for i := 0; i < nl; i++ {
			switch rapid.IntRange(0, 3).Draw(rt, "later") {
			case 0:
				steps = append(steps, e4Step{Kind: "unsub", Subs: []c05Sub{filters[rapid.IntRange(0, len(filters)-1).Draw(rt, "uf")]}})
			case 1:
				steps = append(steps, e4Step{Kind: "sub", QoS: rapid.IntRange(0, 2).Draw(rt, "lq"), Subs: []c05Sub{{Filter: filters[rapid.IntRange(0, len(filters)-1).Draw(rt, "sf")].Filter, QoS: rapid.IntRange(0, 2).Draw(rt, "sq")}}})
			case 2:
				steps = append(steps, e4Step{Kind: "pub", QoS: rapid.IntRange(0, 2).Draw(rt, "pq"), Topic: "t/a"})
			case 3:
				steps = append(steps, e4Step{Kind: "sleepBase", Extra: rapid.IntRange(-100, 300).Draw(rt, "delta")})
			}
		}
		if rapid.Bool().Draw(rt, "secondCut") {
			steps = append(steps, e4Step{Kind: "settle"}, e4Step{Kind: "cutNow"})
		}
		n := 0
		for i := range steps {
			switch steps[i].Kind {
			case "pub", "sub", "unsub":
				n++
				steps[i].Idx = n
			}
		}
		c.Steps = steps
		c.Faults = []e4Fault{{Kind: "loseSession", Conn: 2}}
		if rapid.IntRange(0, 4).Draw(rt, "cutRestore") > 0 {
			c.Faults = append(c.Faults, e4Fault{Kind: "cutType", Conn: 2, Type: rtSubscribe, Nth: rapid.IntRange(1, nf+1).Draw(rt, "cutNth"), After: rapid.Bool().Draw(rt, "cutAfter")})
		}
		if rapid.IntRange(0, 3).Draw(rt, "loseAgain") == 0 {
			c.Faults = append(c.Faults, e4Fault{Kind: "loseSession", Conn: 3})
			if rapid.Bool().Draw(rt, "cutRestore2") {
				c.Faults = append(c.Faults, e4Fault{Kind: "cutType", Conn: 3, Type: rtSubscribe, Nth: rapid.IntRange(1, nf+1).Draw(rt, "cutNth2"), After: rapid.Bool().Draw(rt, "cutAfter2")})
			}
		}
		return c
	}, func(tb rapid.TB, c e4Case) {
		e4Check(tb, "C08", c, e4OracleC08, func(r *e4Result) (bool, []string) {
			lost, interrupted, bytes := false, false, 0
			lossConn := map[int]bool{}
			for _, e := range r.Log {
				if e.Kind == "SESSION-LOST" {
					lost = true
					lossConn[e.Conn] = true
				}
				if lossConn[e.Conn] && e.Pkt != nil && ((e.Kind == "W-LOST" && e.Pkt.Type == rtSubscribe) || (e.Kind == "B-LOST" && e.Pkt.Type == rtSubAck)) {
					interrupted = true
				}
			}
			for _, f := range e4FoldSubs(r) {
				_ = f
			}
			for f := range e4FoldSubs(r) {
				bytes += len(f) + 3
			}
			labels := []string{"c08r:lost=" + vB(lost) + ",interrupted=" + vB(interrupted)}
			if bytes > 256 {
				labels = append(labels, "c08r:restore>256B")
			}
			return lost && interrupted, labels
		})
	})
}

// c08Long: a filter of about 90 bytes (so that a handful of them exceeds any small batching threshold)
func c08Long(suffix string) string {
	return "long/0123456789/abcdefghijklmnopqrstuvwxyz/0123456789/abcdefghijklmnopqrstuvwxyz/0123456789/" + suffix
}
