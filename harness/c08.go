//go:build verif

package mqtt

// C08 — broker-side subscriptions converge to the app's Subscribe/Unsubscribe calls.

import (
	"testing"

	"pgregory.net/rapid"
)

var e4OptsC08 = e4GenOpts{MaxSteps: 12, QoSWeights: []int{2, 2, 2}, SubWeight: 22, MaxFaults: 5, AllowRefuse: false, Outages: true, PreConnect: true,
	FilterPool: []string{"a", "a", "b", "a/+", "c/#"}, CutTypes: []int{rtConnect, rtPublish, rtSubscribe, rtSubscribe, rtUnsubscribe, rtUnsubscribe}, MaxConn: 4}

func c08Nontrivial(r *e4Result) (bool, []string) {
	// >= 1 reconnect after >= 1 acknowledged subscribe, and the history has a repeat, an unsubscribe, or a pending request at the reconnect
	var labels []string
	okConns := 0
	ackedSubBefore := false
	var firstAck int64
	for _, e := range r.Log {
		if e.Kind == "B" && e.Pkt != nil && e.Pkt.Type == rtSubAck && firstAck == 0 {
			firstAck = e.Seq
		}
		if e.Kind == "B" && e.Pkt != nil && e.Pkt.Type == rtConnAck && e.Pkt.Code == 0 {
			okConns++
			if okConns >= 2 && firstAck != 0 && firstAck < e.Seq {
				ackedSubBefore = true
			}
		}
	}
	seen := map[string]bool{}
	repeat, unsub := false, false
	for _, q := range r.Reqs {
		if q.Kind == "unsub" {
			unsub = true
		}
		if q.Kind == "sub" {
			for _, f := range q.Step.Subs {
				if seen[f.Filter] {
					repeat = true
				}
				seen[f.Filter] = true
			}
		}
	}
	pending, _ := e4PendingAtFaults(r)
	if repeat {
		labels = append(labels, "c08:repeated-filter")
	}
	if unsub {
		labels = append(labels, "c08:unsubscribe")
	}
	resub := false
	for _, e := range r.Log {
		if e4Emitted(e) && e.Pkt.Type == rtSubscribe && vTagOf(*e.Pkt) == "" {
			resub = true
		}
	}
	if resub {
		labels = append(labels, "c08:resubscribed")
	}
	cfg := r.Case.Cfg
	labels = append(labels, "c08:kept="+vB(cfg.SessionKept)+",always="+vB(cfg.AlwaysResub)+",clean="+vB(cfg.CleanSession))
	return ackedSubBefore && (repeat || unsub || pending >= 1), labels
}

func TestVerifC08_Subscriptions(t *testing.T) {
	vRun(t, "C08", vOpts{CurFile: true, ReplayReps: 25}, func(rt *rapid.T) e4Case {
		c := e4GenCase(rt, e4OptsC08)
		c.Cfg.SessionKept = rapid.Bool().Draw(rt, "kept2")
		// most histories get 1..2 reconnects placed after a subscription was acknowledged (settle, then cut)
		nrec := rapid.IntRange(0, 2).Draw(rt, "reconnectsAfterAck")
		for k := 0; k < nrec; k++ {
			var subAt []int
			connectSeen := false
			for i, st := range c.Steps {
				if st.Kind == "connect" {
					connectSeen = true
				}
				if connectSeen && (st.Kind == "sub" || st.Kind == "unsub") {
					subAt = append(subAt, i)
				}
			}
			if len(subAt) == 0 {
				break
			}
			at := subAt[rapid.IntRange(0, len(subAt)-1).Draw(rt, "cutAfter")] + 1
			held := false
			for _, st := range c.Steps[:at] {
				if st.Kind == "holdDial" {
					held = true
				}
				if st.Kind == "releaseDial" {
					held = false
				}
			}
			if held {
				continue
			}
			ins := []e4Step{{Kind: "settle"}, {Kind: "cutNow"}}
			if rapid.Bool().Draw(rt, "gap") {
				ins = append(ins, e4Step{Kind: "sleepBase", Extra: rapid.IntRange(-100, 300).Draw(rt, "delta")})
			}
			c.Steps = append(c.Steps[:at], append(ins, c.Steps[at:]...)...)
		}
		return c
	}, func(tb rapid.TB, c e4Case) {
		e4Check(tb, "C08", c, e4OracleC08, c08Nontrivial)
	})
}

// TestVerifC08_Timeouts: the same convergence oracle when acknowledgements are silently dropped and a
// ResponseTimeout makes the client give up on that connection (requests time out instead of failing with the link).
func TestVerifC08_Timeouts(t *testing.T) {
	vRun(t, "C08", vOpts{CurFile: true, ReplayReps: 10}, func(rt *rapid.T) e4Case {
		o := e4OptsC08
		o.MaxFaults = 2
		c := e4GenCase(rt, o)
		c.Cfg.RespTimeoutMs = rapid.SampledFrom([]int{5, 10, 20}).Draw(rt, "respTimeoutMs2")
		c.Cfg.OnErrorSleepUs = 0
		n := rapid.IntRange(1, 3).Draw(rt, "nDrops")
		for i := 0; i < n; i++ {
			c.Faults = append(c.Faults, e4Fault{Kind: "dropAck", Conn: rapid.IntRange(1, i+2).Draw(rt, "dconn"),
				Type: rapid.SampledFrom([]int{rtSubAck, rtSubAck, rtUnsubAck, rtUnsubAck, rtPubAck, rtPubRec}).Draw(rt, "dack"), Nth: rapid.IntRange(1, 3).Draw(rt, "dnth")})
		}
		return c
	}, func(tb rapid.TB, c e4Case) {
		e4Check(tb, "C08", c, e4OracleC08, func(r *e4Result) (bool, []string) {
			nt, labels := c08Nontrivial(r)
			dropped := false
			for _, e := range r.Log {
				if e.Kind == "B-DROPPED" {
					dropped = true
				}
			}
			if dropped {
				labels = append(labels, "c08:ack-dropped")
			}
			return nt || dropped, labels
		})
	})
}
