//go:build verif

package mqtt

// E5 — scripted peer for one BaseClient on the in-memory transport.

import (
	"context"
	"sync"
	"time"
)

const (
	vSyncTopic  = "$verif/sync"
	vSyncIDBase = 60000
)

type bpeer struct {
	mu   sync.Mutex
	conn *memConn
	log  *vLog
	fr   refFramer

	emitted  []refPacket // every packet passed to Transport.Write, delivered or failed
	recv     []refPacket // every well-formed client packet, in arrival order
	recvSeq  []int64     // log sequence number of each
	frameErr error

	// auto is called (with mu held) for every client packet after it was recorded.
	// It may call sendLocked. nil = defaultAuto.
	auto func(p *bpeer, pk refPacket)
	// failWrite, if set, is asked before a Write is processed; a non-nil error is
	// returned from Transport.Write and the bytes are dropped.
	failWrite func(b []byte) error

	syncN       int
	localClosed bool
}

func (p *bpeer) clientWrote(c *memConn, b []byte) error {
	p.mu.Lock()
	defer p.mu.Unlock()
	if p.failWrite != nil {
		if err := p.failWrite(b); err != nil {
			if pk, _, derr := refDecodeOne(b); derr == nil {
				p.log.add(c.id, "WRITE-FAIL", &pk, err.Error())
				p.emitted = append(p.emitted, pk)
			} else {
				p.log.add(c.id, "WRITE-FAIL", nil, err.Error())
			}
			return err
		}
	}
	pks, _, err := p.fr.Feed(b)
	for i := range pks {
		pk := pks[i]
		seq := p.log.add(c.id, "W", &pk, "")
		p.recv = append(p.recv, pk)
		p.recvSeq = append(p.recvSeq, seq)
		p.emitted = append(p.emitted, pk)
		if p.auto != nil {
			p.auto(p, pk)
		} else {
			bpeerDefaultAuto(p, pk)
		}
	}
	if err != nil && p.frameErr == nil {
		p.frameErr = err
		p.log.add(c.id, "FRAME-ERROR", nil, err.Error())
		// a real broker drops the link on a malformed packet; this also keeps blocked calls from waiting
		c.peerClose(false)
	}
	return nil
}

func (p *bpeer) clientWroteOnClosed(c *memConn, b []byte) {
	p.mu.Lock()
	defer p.mu.Unlock()
	if pk, _, err := refDecodeOne(b); err == nil {
		p.log.add(c.id, "WRITE-FAIL", &pk, "written on a closed transport")
		p.emitted = append(p.emitted, pk)
	}
}

func (p *bpeer) clientClosed(c *memConn) {
	p.mu.Lock()
	p.localClosed = true
	p.mu.Unlock()
}

// bpeerDefaultAuto: accept CONNECT, answer PINGREQ. Everything else is left to the script.
func bpeerDefaultAuto(p *bpeer, pk refPacket) {
	switch pk.Type {
	case rtConnect:
		p.sendLocked(refPacket{Type: rtConnAck})
	case rtPingReq:
		p.sendLocked(refPacket{Type: rtPingResp})
	}
}

// bpeerBrokerAuto answers every request like a simple broker (no onward delivery).
func bpeerBrokerAuto(p *bpeer, pk refPacket) {
	switch pk.Type {
	case rtConnect:
		p.sendLocked(refPacket{Type: rtConnAck})
	case rtPingReq:
		p.sendLocked(refPacket{Type: rtPingResp})
	case rtPublish:
		if pk.QoS == 1 {
			p.sendLocked(refPacket{Type: rtPubAck, ID: pk.ID})
		} else if pk.QoS == 2 {
			p.sendLocked(refPacket{Type: rtPubRec, ID: pk.ID})
		}
	case rtPubRel:
		p.sendLocked(refPacket{Type: rtPubComp, ID: pk.ID})
	case rtSubscribe:
		p.sendLocked(refPacket{Type: rtSubAck, ID: pk.ID, Codes: append([]int{}, pk.QoSs...)})
	case rtUnsubscribe:
		p.sendLocked(refPacket{Type: rtUnsubAck, ID: pk.ID})
	}
}

func (p *bpeer) sendLocked(pk refPacket) int64 {
	seq := p.log.add(p.conn.id, "B", &pk, "")
	p.conn.peerSend(refEncode(pk))
	return seq
}

func (p *bpeer) send(pk refPacket) int64 {
	seq := p.log.add(p.conn.id, "B", &pk, "")
	p.conn.peerSend(refEncode(pk))
	return seq
}

func (p *bpeer) sendRaw(b []byte, note string) int64 {
	seq := p.log.add(p.conn.id, "B-RAW", nil, note)
	p.conn.peerSend(b)
	return seq
}

func (p *bpeer) received() []refPacket {
	p.mu.Lock()
	defer p.mu.Unlock()
	return append([]refPacket{}, p.recv...)
}

func (p *bpeer) emittedPackets() []refPacket {
	p.mu.Lock()
	defer p.mu.Unlock()
	return append([]refPacket{}, p.emitted...)
}

func (p *bpeer) receivedWithSeq() ([]refPacket, []int64) {
	p.mu.Lock()
	defer p.mu.Unlock()
	return append([]refPacket{}, p.recv...), append([]int64{}, p.recvSeq...)
}

func (p *bpeer) countRecv(pred func(refPacket) bool) int {
	p.mu.Lock()
	defer p.mu.Unlock()
	n := 0
	for _, pk := range p.recv {
		if pred(pk) {
			n++
		}
	}
	return n
}

func (p *bpeer) waitRecv(d time.Duration, pred func(refPacket) bool, n int) bool {
	return vWaitUntil(d, func() bool { return p.countRecv(pred) >= n })
}

// sync sends a QoS1 marker and waits for its PUBACK: serve is strictly sequential, so
// every packet sent before the marker has been fully handled when this returns true.
func (p *bpeer) sync(d time.Duration) bool { return p.syncBehind(d, nil) }

// syncBehind sends the packets of prefix and the marker in ONE buffer (one TCP segment, as a broker batching its
// output does), then waits for the marker's acknowledgement.
func (p *bpeer) syncBehind(d time.Duration, prefix []refPacket) bool {
	p.mu.Lock()
	p.syncN++
	id := vSyncIDBase + p.syncN
	p.mu.Unlock()
	var buf []byte
	for i := range prefix {
		p.log.add(p.conn.id, "B", &prefix[i], "glued to the next packet")
		buf = append(buf, refEncode(prefix[i])...)
	}
	buf = append(buf, refEncode(refPacket{Type: rtPublish, QoS: 1, ID: id, Topic: vSyncTopic})...)
	if !p.conn.peerSend(buf) {
		return false // the link is already gone
	}
	ok := false
	vWaitUntil(d, func() bool {
		if p.countRecv(func(pk refPacket) bool { return pk.Type == rtPubAck && pk.ID == id }) >= 1 {
			ok = true
			return true
		}
		lc, _ := p.conn.isClosed()
		return lc // the client closed the transport: the marker will never be answered
	})
	return ok
}

func vIsSyncPkt(pk refPacket) bool {
	return (pk.Type == rtPubAck && pk.ID > vSyncIDBase && pk.ID < vSyncIDBase+5000)
}

// ---------------------------------------------------------------------------

type baseRig struct {
	log  *vLog
	peer *bpeer
	conn *memConn
	cli  *BaseClient

	mu     sync.Mutex
	states []vStateEv
}

type vStateEv struct {
	Seq   int64
	State ConnState
	Err   error
}

func newBaseRig() *baseRig {
	r := &baseRig{log: &vLog{}}
	r.peer = &bpeer{log: r.log}
	r.conn = newMemConn(1, r.log, r.peer)
	r.peer.conn = r.conn
	r.cli = &BaseClient{Transport: r.conn}
	r.cli.ConnState = func(s ConnState, err error) {
		note := s.String()
		if err != nil {
			note += " err=" + err.Error()
		}
		seq := r.log.add(1, "STATE", nil, note)
		r.mu.Lock()
		r.states = append(r.states, vStateEv{seq, s, err})
		r.mu.Unlock()
	}
	return r
}

func (r *baseRig) stateLog() []vStateEv {
	r.mu.Lock()
	defer r.mu.Unlock()
	return append([]vStateEv{}, r.states...)
}

// logHandler records every delivered message (deep copy) on the timeline, except markers.
func (r *baseRig) logHandler() Handler {
	return HandlerFunc(func(m *Message) {
		if m.Topic == vSyncTopic {
			return
		}
		pk := refPacket{Type: rtPublish, Topic: m.Topic, Payload: append([]byte{}, m.Payload...), QoS: int(m.QoS), Retain: m.Retain, Dup: m.Dup, ID: int(m.ID)}
		r.log.add(1, "H", &pk, "")
	})
}

func (r *baseRig) connect(tb interface {
	Fatalf(string, ...interface{})
}, opts ...ConnectOption) {
	ctx, cancel := context.WithTimeout(context.Background(), 20*time.Second)
	defer cancel()
	if _, err := r.cli.Connect(ctx, "verif", opts...); err != nil {
		tb.Fatalf("harness: Connect failed: %v", err)
	}
}

// shutdown closes the transport and waits for the reader goroutine to finish.
func (r *baseRig) shutdown() {
	r.conn.Close()
	if d := r.cli.Done(); d != nil {
		select {
		case <-d:
		case <-time.After(20 * time.Second):
		}
	}
}
