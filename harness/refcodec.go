//go:build verif

package mqtt

// E1 — independent MQTT 3.1.1 codec used as oracle. It shares no code with the library:
// strict decoder (both directions), encoder, stream framer.

import (
	"bytes"
	"errors"
	"fmt"
	"testing"
	"unicode/utf8"

	"pgregory.net/rapid"
)

const (
	rtConnect     = 1
	rtConnAck     = 2
	rtPublish     = 3
	rtPubAck      = 4
	rtPubRec      = 5
	rtPubRel      = 6
	rtPubComp     = 7
	rtSubscribe   = 8
	rtSubAck      = 9
	rtUnsubscribe = 10
	rtUnsubAck    = 11
	rtPingReq     = 12
	rtPingResp    = 13
	rtDisconnect  = 14
)

var refTypeNames = map[int]string{
	1: "CONNECT", 2: "CONNACK", 3: "PUBLISH", 4: "PUBACK", 5: "PUBREC", 6: "PUBREL", 7: "PUBCOMP",
	8: "SUBSCRIBE", 9: "SUBACK", 10: "UNSUBSCRIBE", 11: "UNSUBACK", 12: "PINGREQ", 13: "PINGRESP", 14: "DISCONNECT",
}

const refMaxRemaining = 268435455

type refPacket struct {
	Type int `json:"type"`
	// CONNECT
	ProtoName    string `json:"protoName,omitempty"`
	ProtoLevel   int    `json:"protoLevel,omitempty"`
	CleanSession bool   `json:"cleanSession,omitempty"`
	KeepAlive    int    `json:"keepAlive,omitempty"`
	ClientID     string `json:"clientID,omitempty"`
	HasWill      bool   `json:"hasWill,omitempty"`
	WillTopic    string `json:"willTopic,omitempty"`
	WillPayload  []byte `json:"willPayload,omitempty"`
	WillQoS      int    `json:"willQoS,omitempty"`
	WillRetain   bool   `json:"willRetain,omitempty"`
	HasUser      bool   `json:"hasUser,omitempty"`
	User         string `json:"user,omitempty"`
	HasPass      bool   `json:"hasPass,omitempty"`
	Pass         string `json:"pass,omitempty"`
	// CONNACK
	SessionPresent bool `json:"sessionPresent,omitempty"`
	Code           int  `json:"code,omitempty"`
	// PUBLISH
	Topic   string `json:"topic,omitempty"`
	Payload []byte `json:"payload,omitempty"`
	QoS     int    `json:"qos,omitempty"`
	Retain  bool   `json:"retain,omitempty"`
	Dup     bool   `json:"dup,omitempty"`
	// acks, PUBLISH qos>0, SUBSCRIBE, UNSUBSCRIBE
	ID int `json:"id,omitempty"`
	// SUBSCRIBE / UNSUBSCRIBE
	Filters []string `json:"filters,omitempty"`
	QoSs    []int    `json:"qoss,omitempty"`
	// SUBACK
	Codes []int `json:"codes,omitempty"`
}

func (p refPacket) String() string {
	switch p.Type {
	case rtPublish:
		return fmt.Sprintf("PUBLISH{id=%d q%d dup=%v ret=%v topic=%q len=%d}", p.ID, p.QoS, p.Dup, p.Retain, p.Topic, len(p.Payload))
	case rtSubscribe:
		return fmt.Sprintf("SUBSCRIBE{id=%d %q %v}", p.ID, p.Filters, p.QoSs)
	case rtUnsubscribe:
		return fmt.Sprintf("UNSUBSCRIBE{id=%d %q}", p.ID, p.Filters)
	case rtSubAck:
		return fmt.Sprintf("SUBACK{id=%d %v}", p.ID, p.Codes)
	case rtPubAck, rtPubRec, rtPubRel, rtPubComp, rtUnsubAck:
		return fmt.Sprintf("%s{id=%d}", refTypeNames[p.Type], p.ID)
	case rtConnAck:
		return fmt.Sprintf("CONNACK{sp=%v code=%d}", p.SessionPresent, p.Code)
	case rtConnect:
		return fmt.Sprintf("CONNECT{%q clean=%v ka=%d will=%v user=%v pass=%v}", p.ClientID, p.CleanSession, p.KeepAlive, p.HasWill, p.HasUser, p.HasPass)
	}
	return refTypeNames[p.Type]
}

// refEncodeLen is the algorithm of MQTT 3.1.1 section 2.2.3 (non normative pseudo code).
func refEncodeLen(x int) []byte {
	var out []byte
	for {
		d := byte(x % 128)
		x = x / 128
		if x > 0 {
			d |= 128
		}
		out = append(out, d)
		if x == 0 {
			return out
		}
	}
}

var errRefShort = errors.New("ref: incomplete packet")

// refDecodeLen decodes the remaining length at b[0:]; returns value and bytes used.
// It rejects a 5th length byte and non-minimal encodings.
func refDecodeLen(b []byte) (int, int, error) {
	mult, val := 1, 0
	for i := 0; ; i++ {
		if i >= 4 {
			return 0, 0, errors.New("ref: remaining length longer than 4 bytes")
		}
		if i >= len(b) {
			return 0, 0, errRefShort
		}
		val += int(b[i]&127) * mult
		mult *= 128
		if b[i]&128 == 0 {
			if i > 0 && b[i] == 0 {
				return 0, 0, errors.New("ref: non-minimal remaining length")
			}
			return val, i + 1, nil
		}
	}
}

type refReader struct {
	b   []byte
	err error
}

func (r *refReader) u8() int {
	if r.err != nil {
		return 0
	}
	if len(r.b) < 1 {
		r.err = errors.New("ref: body too short")
		return 0
	}
	v := r.b[0]
	r.b = r.b[1:]
	return int(v)
}

func (r *refReader) u16() int {
	hi := r.u8()
	lo := r.u8()
	return hi<<8 | lo
}

func (r *refReader) bin() []byte {
	n := r.u16()
	if r.err != nil {
		return nil
	}
	if len(r.b) < n {
		r.err = errors.New("ref: length-prefixed field exceeds body")
		return nil
	}
	v := append([]byte{}, r.b[:n]...)
	r.b = r.b[n:]
	return v
}

func (r *refReader) str() string {
	v := r.bin()
	if r.err != nil {
		return ""
	}
	if !utf8.Valid(v) {
		r.err = errors.New("ref: string is not valid UTF-8")
		return ""
	}
	for _, c := range string(v) {
		if c == 0 {
			r.err = errors.New("ref: string contains U+0000")
			return ""
		}
	}
	return string(v)
}

// refDecodeBody strictly decodes one packet given its first byte and exact body.
func refDecodeBody(first byte, body []byte) (refPacket, error) {
	typ := int(first >> 4)
	flags := first & 0x0F
	p := refPacket{Type: typ}
	r := &refReader{b: body}
	wantFlags := byte(0)
	switch typ {
	case rtPubRel, rtSubscribe, rtUnsubscribe:
		wantFlags = 2
	}
	if typ != rtPublish && flags != wantFlags {
		return p, fmt.Errorf("ref: %s with reserved flags %#x (must be %#x)", refTypeNames[typ], flags, wantFlags)
	}
	switch typ {
	case rtConnect:
		p.ProtoName = r.str()
		p.ProtoLevel = r.u8()
		cf := r.u8()
		p.KeepAlive = r.u16()
		if r.err != nil {
			return p, r.err
		}
		if cf&1 != 0 {
			return p, errors.New("ref: CONNECT reserved flag bit 0 set")
		}
		p.CleanSession = cf&2 != 0
		p.HasWill = cf&4 != 0
		p.WillQoS = (cf >> 3) & 3
		p.WillRetain = cf&0x20 != 0
		p.HasPass = cf&0x40 != 0
		p.HasUser = cf&0x80 != 0
		if !p.HasWill && (p.WillQoS != 0 || p.WillRetain) {
			return p, errors.New("ref: CONNECT will QoS/retain set without will flag")
		}
		if p.WillQoS == 3 {
			return p, errors.New("ref: CONNECT will QoS 3")
		}
		if p.HasPass && !p.HasUser {
			return p, errors.New("ref: CONNECT password flag without user name flag")
		}
		if !((p.ProtoName == "MQTT" && p.ProtoLevel == 4) || (p.ProtoName == "MQTT" && p.ProtoLevel == 3) || (p.ProtoName == "MQIsdp" && p.ProtoLevel == 3)) {
			// the library writes "MQTT" for level 3 as well; only the name/level pair is reported, not rejected
		}
		p.ClientID = r.str()
		if p.HasWill {
			p.WillTopic = r.str()
			p.WillPayload = r.bin()
		}
		if p.HasUser {
			p.User = r.str()
		}
		if p.HasPass {
			p.Pass = string(r.bin())
		}
	case rtConnAck:
		f := r.u8()
		p.Code = r.u8()
		if r.err == nil && f&0xFE != 0 {
			return p, errors.New("ref: CONNACK reserved acknowledge flags set")
		}
		p.SessionPresent = f&1 != 0
	case rtPublish:
		p.Dup = flags&8 != 0
		p.QoS = int(flags>>1) & 3
		p.Retain = flags&1 != 0
		if p.QoS == 3 {
			return p, errors.New("ref: PUBLISH QoS 3")
		}
		if p.QoS == 0 && p.Dup {
			return p, errors.New("ref: PUBLISH QoS0 with DUP")
		}
		p.Topic = r.str()
		if r.err == nil {
			if p.Topic == "" {
				return p, errors.New("ref: PUBLISH with empty topic")
			}
			for i := 0; i < len(p.Topic); i++ {
				if p.Topic[i] == '+' || p.Topic[i] == '#' {
					return p, errors.New("ref: PUBLISH topic name contains a wildcard")
				}
			}
		}
		if p.QoS > 0 {
			p.ID = r.u16()
			if r.err == nil && p.ID == 0 {
				return p, errors.New("ref: PUBLISH QoS>0 with packet id 0")
			}
		}
		if r.err == nil {
			p.Payload = append([]byte{}, r.b...)
			r.b = nil
		}
	case rtPubAck, rtPubRec, rtPubRel, rtPubComp, rtUnsubAck:
		p.ID = r.u16()
	case rtSubscribe:
		p.ID = r.u16()
		if r.err == nil && p.ID == 0 {
			return p, errors.New("ref: SUBSCRIBE with packet id 0")
		}
		for r.err == nil && len(r.b) > 0 {
			f := r.str()
			q := r.u8()
			if r.err != nil {
				break
			}
			if q > 2 {
				return p, fmt.Errorf("ref: SUBSCRIBE requested QoS byte %#x", q)
			}
			if !refValidFilter(f) {
				return p, fmt.Errorf("ref: SUBSCRIBE invalid filter %q", f)
			}
			p.Filters = append(p.Filters, f)
			p.QoSs = append(p.QoSs, q)
		}
		if r.err == nil && len(p.Filters) == 0 {
			return p, errors.New("ref: SUBSCRIBE without any filter")
		}
	case rtSubAck:
		p.ID = r.u16()
		for r.err == nil && len(r.b) > 0 {
			c := r.u8()
			p.Codes = append(p.Codes, c)
		}
	case rtUnsubscribe:
		p.ID = r.u16()
		if r.err == nil && p.ID == 0 {
			return p, errors.New("ref: UNSUBSCRIBE with packet id 0")
		}
		for r.err == nil && len(r.b) > 0 {
			f := r.str()
			if r.err != nil {
				break
			}
			p.Filters = append(p.Filters, f)
		}
		if r.err == nil && len(p.Filters) == 0 {
			return p, errors.New("ref: UNSUBSCRIBE without any filter")
		}
	case rtPingReq, rtPingResp, rtDisconnect:
	default:
		return p, fmt.Errorf("ref: reserved packet type %d", typ)
	}
	if r.err != nil {
		return p, r.err
	}
	if len(r.b) != 0 {
		return p, fmt.Errorf("ref: %s body has %d trailing bytes", refTypeNames[typ], len(r.b))
	}
	return p, nil
}

// refDecodeOne decodes one packet at the start of b: (packet, bytes consumed, error).
// errRefShort means b holds only a prefix of a packet.
func refDecodeOne(b []byte) (refPacket, int, error) {
	if len(b) < 2 {
		return refPacket{}, 0, errRefShort
	}
	n, used, err := refDecodeLen(b[1:])
	if err != nil {
		return refPacket{}, 0, err
	}
	total := 1 + used + n
	if len(b) < total {
		return refPacket{}, 0, errRefShort
	}
	p, err := refDecodeBody(b[0], b[1+used:total])
	return p, total, err
}

func refAppendStr(b []byte, s string) []byte {
	b = append(b, byte(len(s)>>8), byte(len(s)))
	return append(b, s...)
}

func refAppendBin(b []byte, s []byte) []byte {
	b = append(b, byte(len(s)>>8), byte(len(s)))
	return append(b, s...)
}

// refEncode is the encoder half of the reference.
func refEncode(p refPacket) []byte {
	var body []byte
	first := byte(p.Type << 4)
	switch p.Type {
	case rtConnect:
		body = refAppendStr(body, p.ProtoName)
		body = append(body, byte(p.ProtoLevel))
		var cf byte
		if p.CleanSession {
			cf |= 2
		}
		if p.HasWill {
			cf |= 4 | byte(p.WillQoS<<3)
			if p.WillRetain {
				cf |= 0x20
			}
		}
		if p.HasPass {
			cf |= 0x40
		}
		if p.HasUser {
			cf |= 0x80
		}
		body = append(body, cf, byte(p.KeepAlive>>8), byte(p.KeepAlive))
		body = refAppendStr(body, p.ClientID)
		if p.HasWill {
			body = refAppendStr(body, p.WillTopic)
			body = refAppendBin(body, p.WillPayload)
		}
		if p.HasUser {
			body = refAppendStr(body, p.User)
		}
		if p.HasPass {
			body = refAppendStr(body, p.Pass)
		}
	case rtConnAck:
		var f byte
		if p.SessionPresent {
			f = 1
		}
		body = []byte{f, byte(p.Code)}
	case rtPublish:
		first |= byte(p.QoS << 1)
		if p.Dup {
			first |= 8
		}
		if p.Retain {
			first |= 1
		}
		body = refAppendStr(body, p.Topic)
		if p.QoS > 0 {
			body = append(body, byte(p.ID>>8), byte(p.ID))
		}
		body = append(body, p.Payload...)
	case rtPubAck, rtPubRec, rtPubComp, rtUnsubAck:
		body = []byte{byte(p.ID >> 8), byte(p.ID)}
	case rtPubRel:
		first |= 2
		body = []byte{byte(p.ID >> 8), byte(p.ID)}
	case rtSubscribe:
		first |= 2
		body = []byte{byte(p.ID >> 8), byte(p.ID)}
		for i, f := range p.Filters {
			body = refAppendStr(body, f)
			body = append(body, byte(p.QoSs[i]))
		}
	case rtSubAck:
		body = []byte{byte(p.ID >> 8), byte(p.ID)}
		for _, c := range p.Codes {
			body = append(body, byte(c))
		}
	case rtUnsubscribe:
		first |= 2
		body = []byte{byte(p.ID >> 8), byte(p.ID)}
		for _, f := range p.Filters {
			body = refAppendStr(body, f)
		}
	}
	out := append([]byte{first}, refEncodeLen(len(body))...)
	return append(out, body...)
}

// refFramer splits a byte stream into strictly decoded packets.
type refFramer struct {
	buf []byte
	err error
}

// Feed appends bytes and returns every packet completed by them. After an error the
// framer stays failed (the stream is not a concatenation of whole well-formed packets).
func (f *refFramer) Feed(b []byte) ([]refPacket, [][]byte, error) {
	if f.err != nil {
		return nil, nil, f.err
	}
	f.buf = append(f.buf, b...)
	var out []refPacket
	var raws [][]byte
	for {
		p, n, err := refDecodeOne(f.buf)
		if err == errRefShort {
			return out, raws, nil
		}
		if err != nil {
			f.err = err
			return out, raws, err
		}
		out = append(out, p)
		raws = append(raws, append([]byte{}, f.buf[:n]...))
		f.buf = f.buf[n:]
	}
}

func (f *refFramer) Pending() int { return len(f.buf) }

func refPacketsEqual(a, b refPacket) bool {
	return bytes.Equal(vJSON(a), vJSON(b))
}

// ---------------------------------------------------------------------------
// generators of reference packets (shared by several checks)

var refTopicLevels = []string{"a", "b", "c", "sensor", "日本", "é", "x y", "A", "0", "r\uFFFDr", "\uFFFC", "\U0001F600"}

func refGenTopic(rt *rapid.T, label string) string {
	n := rapid.IntRange(1, 4).Draw(rt, label+"Depth")
	lv := make([]string, n)
	for i := range lv {
		lv[i] = rapid.SampledFrom(refTopicLevels).Draw(rt, label+"L")
	}
	return c14Join(lv)
}

func refGenPacket(rt *rapid.T) refPacket {
	typ := rapid.IntRange(1, 14).Draw(rt, "type")
	p := refPacket{Type: typ}
	id := func() int { return rapid.IntRange(1, 65535).Draw(rt, "id") }
	switch typ {
	case rtConnect:
		p.ProtoName = "MQTT"
		p.ProtoLevel = rapid.SampledFrom([]int{3, 4}).Draw(rt, "level")
		p.CleanSession = rapid.Bool().Draw(rt, "clean")
		p.KeepAlive = rapid.IntRange(0, 65535).Draw(rt, "ka")
		p.ClientID = rapid.StringMatching(`[a-zA-Z0-9é]{0,12}`).Draw(rt, "cid")
		if rapid.Bool().Draw(rt, "will") {
			p.HasWill = true
			p.WillTopic = refGenTopic(rt, "wt")
			p.WillPayload = rapid.SliceOfN(rapid.Byte(), 0, 20).Draw(rt, "wp")
			p.WillQoS = rapid.IntRange(0, 2).Draw(rt, "wq")
			p.WillRetain = rapid.Bool().Draw(rt, "wr")
		}
		if rapid.Bool().Draw(rt, "user") {
			p.HasUser = true
			p.User = rapid.StringMatching(`[a-z]{0,8}`).Draw(rt, "u")
			if rapid.Bool().Draw(rt, "pass") {
				p.HasPass = true
				p.Pass = rapid.StringMatching(`[a-z]{0,8}`).Draw(rt, "pw")
			}
		}
	case rtConnAck:
		p.SessionPresent = rapid.Bool().Draw(rt, "sp")
		p.Code = rapid.IntRange(0, 5).Draw(rt, "code")
	case rtPublish:
		p.QoS = rapid.IntRange(0, 2).Draw(rt, "qos")
		p.Retain = rapid.Bool().Draw(rt, "retain")
		if p.QoS > 0 {
			p.Dup = rapid.Bool().Draw(rt, "dup")
			p.ID = id()
		}
		p.Topic = refGenTopic(rt, "t")
		p.Payload = rapid.SliceOfN(rapid.Byte(), 0, 300).Draw(rt, "payload")
	case rtPubAck, rtPubRec, rtPubRel, rtPubComp, rtUnsubAck:
		p.ID = id()
	case rtSubscribe:
		p.ID = id()
		n := rapid.IntRange(1, 5).Draw(rt, "n")
		for i := 0; i < n; i++ {
			p.Filters = append(p.Filters, refGenTopic(rt, "f"))
			p.QoSs = append(p.QoSs, rapid.IntRange(0, 2).Draw(rt, "q"))
		}
	case rtSubAck:
		p.ID = id()
		n := rapid.IntRange(0, 5).Draw(rt, "n")
		for i := 0; i < n; i++ {
			p.Codes = append(p.Codes, rapid.SampledFrom([]int{0, 1, 2, 0x80}).Draw(rt, "c"))
		}
	case rtUnsubscribe:
		p.ID = id()
		n := rapid.IntRange(1, 5).Draw(rt, "n")
		for i := 0; i < n; i++ {
			p.Filters = append(p.Filters, refGenTopic(rt, "f"))
		}
	}
	return p
}

// TestVerifRef_SelfTest: decoder(encoder(p)) == p and stream framing of concatenations,
// so that a bug in the reference shows up here and not as a "violation" elsewhere.
func TestVerifRef_SelfTest(t *testing.T) {
	if vReplayOrCorpusOnly() {
		t.Skip("replay mode")
	}
	rapid.Check(t, func(rt *rapid.T) {
		n := rapid.IntRange(1, 6).Draw(rt, "n")
		var pkts []refPacket
		var stream []byte
		for i := 0; i < n; i++ {
			p := refGenPacket(rt)
			enc := refEncode(p)
			q, used, err := refDecodeOne(enc)
			if err != nil || used != len(enc) || !refPacketsEqual(p, q) {
				rt.Fatalf("reference self-test: %v -> % x -> %v used=%d err=%v", p, enc, q, used, err)
			}
			pkts = append(pkts, p)
			stream = append(stream, enc...)
		}
		f := &refFramer{}
		var got []refPacket
		for len(stream) > 0 {
			k := rapid.IntRange(1, len(stream)).Draw(rt, "chunk")
			ps, _, err := f.Feed(stream[:k])
			if err != nil {
				rt.Fatalf("reference framer failed on valid stream: %v", err)
			}
			got = append(got, ps...)
			stream = stream[k:]
		}
		if len(got) != len(pkts) || f.Pending() != 0 {
			rt.Fatalf("reference framer: %d packets of %d, %d pending", len(got), len(pkts), f.Pending())
		}
		for i := range got {
			if !refPacketsEqual(got[i], pkts[i]) {
				rt.Fatalf("reference framer packet %d differs", i)
			}
		}
	})
}
