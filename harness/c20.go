//go:build verif

package mqtt

// C20 — handlers behind ServeMux / ServeAsync get private copies of the message.

import (
	"bytes"
	"fmt"
	"runtime"
	"sync"
	"testing"
	"time"
	"unsafe"

	"pgregory.net/rapid"
)

type c20Msg struct {
	Topic   string `json:"topic"`
	Payload []byte `json:"payload"`
	QoS     int    `json:"qos"`
	Retain  bool   `json:"retain"`
	Dup     bool   `json:"dup"`
	ID      int    `json:"id"`
	// Spare: extra capacity behind the payload (a buffer re-used as buf[:n], also with n = 0)
	Spare int `json:"spare,omitempty"`
}

type c20Handler struct {
	Filter string `json:"filter"`
	Mut    string `json:"mut"` // none overwrite append reslice topic flags id all
	// Embed: the handler is an application type that embeds a library dispatcher (struct{ *ServeMux }) and overrides Serve:
	// whatever unexported methods the embedded type has are promoted to it
	Embed bool `json:"embed,omitempty"`
}

// c20Embed is such an application type.
type c20Embed struct {
	*ServeMux
	h Handler
}

func (e *c20Embed) Serve(m *Message) {
	e.h.Serve(m)
	e.ServeMux.Serve(m) // (an empty inner mux: nothing further happens)
}

type c20Case struct {
	Mode     string       `json:"mode"` // mux | async | async-mux | mux-async
	Msgs     []c20Msg     `json:"msgs"`
	Handlers []c20Handler `json:"handlers"`
}

func (m c20Msg) message() *Message {
	p := make([]byte, len(m.Payload), len(m.Payload)+m.Spare)
	copy(p, m.Payload)
	return &Message{Topic: m.Topic, Payload: p, QoS: QoS(m.QoS), Retain: m.Retain, Dup: m.Dup, ID: uint16(m.ID)}
}

func c20Snap(m *Message) c20Msg {
	return c20Msg{Topic: m.Topic, Payload: append([]byte{}, m.Payload...), QoS: int(m.QoS), Retain: m.Retain, Dup: m.Dup, ID: int(m.ID)}
}

func c20Eq(a, b c20Msg) bool {
	return a.Topic == b.Topic && bytes.Equal(a.Payload, b.Payload) && a.QoS == b.QoS && a.Retain == b.Retain && a.Dup == b.Dup && a.ID == b.ID
}

func c20Mutate(m *Message, how string, salt int) {
	switch how {
	case "overwrite", "all":
		for i := range m.Payload {
			m.Payload[i] ^= 0xFF
		}
		if how == "all" {
			m.Topic, m.QoS, m.Retain, m.Dup, m.ID = "mutated/"+m.Topic, (m.QoS+1)%3, !m.Retain, !m.Dup, m.ID+1
			m.Payload = append(m.Payload, 'Z', byte('a'+salt%26))
		}
	case "append":
		m.Payload = append(m.Payload, fmt.Sprintf("-appended-by-%d", salt)...)
	case "reslice":
		if len(m.Payload) > 0 {
			m.Payload[0] = 'R'
			m.Payload = m.Payload[:len(m.Payload)-1]
		}
	case "topic":
		m.Topic = "mutated"
	case "flags":
		m.QoS, m.Retain, m.Dup = (m.QoS+1)%3, !m.Retain, !m.Dup
	case "id":
		m.ID ^= 0x5555
	}
}

type c20Entry struct {
	Handler int
	Msg     int
	Snap    c20Msg
	Ptr     uintptr
	kept    *Message // the handler keeps what it was given ...
	atExit  c20Msg   // ... as it looked when the handler returned
	hold    []byte   // the payload slice as received (address comparisons need the array to stay allocated)
}

func c20Run(tb rapid.TB, c c20Case) {
	var mu sync.Mutex
	var entries []c20Entry
	var wg sync.WaitGroup
	release := make(chan struct{})
	rawDone := make(chan struct{}, 4096)
	cur := 0
	async := c.Mode != "mux"

	var mkPlain func(i int, h c20Handler) Handler
	mk := func(i int, h c20Handler) Handler {
		if h.Embed {
			return &c20Embed{ServeMux: &ServeMux{}, h: mkPlain(i, h)}
		}
		return mkPlain(i, h)
	}
	mkPlain = func(i int, h c20Handler) Handler {
		return HandlerFunc(func(m *Message) {
			if c.Mode == "async-rawmux" {
				defer func() { rawDone <- struct{}{} }()
				<-release
			} else if async {
				defer wg.Done()
				<-release // run only after the dispatcher returned and the caller touched its message
			}
			var ptr uintptr
			if len(m.Payload) > 0 {
				ptr = uintptr(unsafe.Pointer(&m.Payload[0]))
			}
			snap := c20Snap(m)
			hold := m.Payload // keeps the array alive: a freed array's address could be handed out again and look "shared"
			c20Mutate(m, h.Mut, i)
			mu.Lock()
			entries = append(entries, c20Entry{Handler: i, Msg: cur, Snap: snap, Ptr: ptr, kept: m, atExit: c20Snap(m), hold: hold})
			mu.Unlock()
		})
	}

	var top Handler
	switch c.Mode {
	case "mux", "async-mux":
		mux := &ServeMux{}
		for i, h := range c.Handlers {
			if err := mux.Handle(h.Filter, mk(i, h)); err != nil {
				tb.Fatalf("harness: filter %q rejected: %v", h.Filter, err)
			}
		}
		top = mux
		if c.Mode == "async-mux" {
			top = &ServeAsync{Handler: HandlerFunc(func(m *Message) {
				defer wg.Done()
				<-release
				wg.Add(c20CountMatching(c.Handlers, m.Topic))
				mux.Serve(m)
			})}
		}
	case "async-rawmux":
		// the mux itself behind ServeAsync (no wrapper in between)
		mux := &ServeMux{}
		for i, h := range c.Handlers {
			if err := mux.Handle(h.Filter, mk(i, h)); err != nil {
				tb.Fatalf("harness: filter %q rejected: %v", h.Filter, err)
			}
		}
		top = &ServeAsync{Handler: mux}
	case "async":
		top = &ServeAsync{Handler: mk(0, c.Handlers[0])}
	case "mux-async":
		mux := &ServeMux{}
		for i, h := range c.Handlers {
			mux.Handle(h.Filter, &ServeAsync{Handler: mk(i, h)})
		}
		top = mux
	}

	mutating := 0
	var callerHolds [][]byte
	defer func() { runtime.KeepAlive(callerHolds) }()
	for mi, cm := range c.Msgs {
		cur = mi
		orig := cm
		msg := cm.message()
		var callerPtr uintptr
		callerHold := msg.Payload // (see c20Entry.hold)
		callerHolds = append(callerHolds, callerHold)
		if len(msg.Payload) > 0 {
			callerPtr = uintptr(unsafe.Pointer(&msg.Payload[0]))
		}
		n := c20CountMatching(c.Handlers, cm.Topic)
		switch c.Mode {
		case "async":
			n = 1
			wg.Add(1)
		case "async-mux":
			wg.Add(1)
		case "mux-async":
			wg.Add(n)
		}
		before := len(entries)
		release = make(chan struct{})
		top.Serve(msg)
		if !async {
			if !c20Eq(c20Snap(msg), orig) {
				vFailf(tb, nil, "message %d: the caller's message changed during dispatch: %v -> %v", mi, orig, c20Snap(msg))
			}
			if full := callerHold[:cap(callerHold)]; !bytes.Equal(full[len(callerHold):], make([]byte, cap(callerHold)-len(callerHold))) {
				vFailf(tb, nil, "message %d: a handler wrote into the spare capacity of the caller's payload buffer: % x", mi, full[len(callerHold):])
			}
		} else {
			// the caller re-uses its message (as the client's reader may) before the handlers run
			c20Mutate(msg, "all", 25)
			close(release)
			if c.Mode == "async-rawmux" {
				for k := 0; k < n; k++ {
					select {
					case <-rawDone:
					case <-time.After(10 * time.Second):
						vFailf(tb, nil, "message %d: only %d of the %d handlers matching topic %q ran within 10 s (the dispatched message was %v)", mi, k, n, cm.Topic, orig)
					}
				}
			} else {
				wg.Wait()
			}
		}
		mu.Lock()
		got := append([]c20Entry{}, entries[before:]...)
		mu.Unlock()
		if len(got) != n {
			vFailf(tb, nil, "message %d: %d handler invocations, expected %d", mi, len(got), n)
		}
		ptrs := map[uintptr]int{}
		for _, e := range got {
			if !c20Eq(e.Snap, orig) {
				vFailf(tb, nil, "message %d: handler %d received %v on entry, the dispatched message was %v (a sibling's or the caller's change leaked)", mi, e.Handler, e.Snap, orig)
			}
			if e.Ptr != 0 {
				if e.Ptr == callerPtr {
					vFailf(tb, nil, "message %d: handler %d shares the payload backing array with the caller's message", mi, e.Handler)
				}
				if other, dup := ptrs[e.Ptr]; dup {
					vFailf(tb, nil, "message %d: handlers %d and %d share one payload backing array", mi, other, e.Handler)
				}
				ptrs[e.Ptr] = e.Handler
			}
		}
		if n >= 2 {
			for _, h := range c.Handlers {
				if (h.Mut == "overwrite" || h.Mut == "all" || h.Mut == "reslice") && len(cm.Payload) > 0 {
					if _, ferr := newTopicFilter(h.Filter); ferr == nil && refMatch(refSplitLevels(h.Filter), refSplitLevels(cm.Topic)) {
						mutating++
						break
					}
				}
			}
		}
	}
	// a handler may keep its copy: dispatching later messages must not change what earlier handlers kept
	mu.Lock()
	for _, e := range entries {
		if e.kept != nil && !c20Eq(c20Snap(e.kept), e.atExit) {
			mu.Unlock()
			vFailf(tb, nil, "the copy that handler %d kept of message %d changed after the handler had returned: %v -> %v (a later dispatch re-used it)", e.Handler, e.Msg, e.atExit, c20Snap(e.kept))
		}
	}
	mu.Unlock()
	nontrivial := mutating > 0 || (c.Mode == "async" && len(c.Msgs[0].Payload) > 0)
	vCount("C20", nontrivial, vJSON(c), []string{"mode:" + c.Mode, fmt.Sprintf("msgs:%d", len(c.Msgs))}, func() interface{} { return c })
	_ = time.Now
}

func c20CountMatching(hs []c20Handler, topic string) int {
	n := 0
	for _, h := range hs {
		if refValidFilter(h.Filter) && refMatch(refSplitLevels(h.Filter), refSplitLevels(topic)) {
			n++
		}
	}
	return n
}

func c20Gen(rt *rapid.T) c20Case {
	c := c20Case{Mode: rapid.SampledFrom([]string{"mux", "mux", "async", "async-mux", "mux-async", "async-rawmux"}).Draw(rt, "mode")}
	topics := []string{"a", "a/b", "b"}
	c.Msgs = rapid.SliceOfN(rapid.Custom(func(rt *rapid.T) c20Msg {
		return c20Msg{
			Topic:   rapid.SampledFrom(topics).Draw(rt, "topic"),
			Payload: rapid.SliceOfN(rapid.Byte(), 0, 64).Draw(rt, "payload"),
			Spare:   rapid.SampledFrom([]int{0, 0, 1, 16, 64}).Draw(rt, "spare"),
			QoS:     rapid.IntRange(0, 2).Draw(rt, "qos"),
			Retain:  rapid.Bool().Draw(rt, "retain"),
			Dup:     rapid.Bool().Draw(rt, "dup"),
			ID:      rapid.IntRange(0, 65535).Draw(rt, "id"),
		}
	}), 1, 3).Draw(rt, "msgs")
	c.Handlers = rapid.SliceOfN(rapid.Custom(func(rt *rapid.T) c20Handler {
		return c20Handler{
			Filter: rapid.SampledFrom([]string{"a", "a/b", "b", "#", "+", "a/#", "a/+", "c"}).Draw(rt, "filter"),
			Mut:    rapid.SampledFrom([]string{"none", "overwrite", "overwrite", "append", "reslice", "topic", "flags", "id", "all"}).Draw(rt, "mut"),
			Embed:  rapid.IntRange(0, 4).Draw(rt, "embed") == 0,
		}
	}), 1, 6).Draw(rt, "handlers")
	return c
}

func TestVerifC20_Copies(t *testing.T) {
	vRun(t, "C20", vOpts{}, c20Gen, c20Run)
}
