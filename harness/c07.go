//go:build verif

package mqtt

// C07 — a request completes only on the acknowledgement that belongs to it.

import (
	"context"
	"errors"
	"fmt"
	"runtime"
	"sync"
	"sync/atomic"
	"testing"
	"time"

	"pgregory.net/rapid"
)

type c07Req struct {
	Kind     string `json:"kind"` // pub1 pub2 sub unsub
	NFilters int    `json:"nFilters,omitempty"`
	Codes    []int  `json:"codes,omitempty"`    // SUBACK return codes the broker will send
	RepeatAt int    `json:"repeatAt,omitempty"` // > 0: the filter at this position repeats the first filter of the same call (legal; the codes stay positional)
	WrongLen int    `json:"wrongLen,omitempty"` // != 0: the SUBACK carries len(filters)+WrongLen codes
	Cancel   bool   `json:"cancel,omitempty"`   // the caller gives up (context cancelled) before any answer; the answers still arrive, late
	// CancelWithRec (pub2 only): PUBREC is sent and the caller's context is cancelled at the same moment. Whatever the
	// select picks, the call cannot succeed: no PUBCOMP was ever sent.
	CancelWithRec bool `json:"cancelWithRec,omitempty"`
	// IDBehind > 0 (publishes): the Message carries an identifier of its own, IDBehind below the client's counter - a
	// Message value re-used after an earlier publish keeps its old identifier. It is used unchanged and must not influence
	// the identifiers the client chooses for the other requests.
	IDBehind int `json:"idBehind,omitempty"`
	// IDAhead > 0 (one publish in a case without other publishes): its own identifier is IDAhead above the counter, i.e. the
	// very number the client will give to one of the Subscribe / Unsubscribe requests made at the same time. Identifiers of
	// different kinds of request do not share anything: each still completes on its own acknowledgement only.
	IDAhead int `json:"idAhead,omitempty"`
}

type c07Item struct {
	Op     string `json:"op"` // ack | unused | wrongkind | dupack | unsolicited
	Req    int    `json:"req,omitempty"`
	Type   int    `json:"type,omitempty"` // ack packet type for foreign items
	Yields int    `json:"yields,omitempty"`
	Glue   bool   `json:"glue,omitempty"` // unsolicited: sent in one buffer with the packet that follows it
}

type c07Case struct {
	Reqs   []c07Req  `json:"reqs"`
	Script []c07Item `json:"script"`
	// WrapIn > 0: the identifier counter is set so that it wraps (0xFFFF -> 1) within the first WrapIn allocations
	WrapIn int `json:"wrapIn,omitempty"`
	// DisconnectAt >= 0: before script item DisconnectAt the application calls Disconnect; every request whose own
	// acknowledgement has not been sent by then must fail
	DisconnectAt int `json:"disconnectAt"`
}

var c07AckTypes = []int{rtPubAck, rtPubRec, rtPubComp, rtSubAck, rtUnsubAck}

func c07Gen(rt *rapid.T) c07Case {
	var c c07Case
	if rapid.IntRange(0, 7).Draw(rt, "crossKind") == 0 {
		// one publish whose own identifier equals an identifier the client hands to a concurrent Subscribe / Unsubscribe
		c.Reqs = []c07Req{{Kind: rapid.SampledFrom([]string{"pub1", "pub2"}).Draw(rt, "pk"), IDAhead: rapid.IntRange(1, 3).Draw(rt, "idAhead")}}
		n := rapid.IntRange(3, 6).Draw(rt, "others")
		for i := 0; i < n; i++ {
			q := c07Req{Kind: rapid.SampledFrom([]string{"sub", "unsub"}).Draw(rt, "ok")}
			if q.Kind == "sub" {
				q.NFilters = 1
				q.Codes = []int{rapid.IntRange(0, 2).Draw(rt, "code")}
			}
			c.Reqs = append(c.Reqs, q)
		}
		var acks []c07Item
		for i, q := range c.Reqs {
			acks = append(acks, c07Item{Op: "ack", Req: i})
			if q.Kind == "pub2" {
				acks = append(acks, c07Item{Op: "ack", Req: i})
			}
		}
		c.Script = rapid.Permutation(acks).Draw(rt, "ackOrder")
		c.DisconnectAt = -1
		return c
	}
	c.Reqs = rapid.SliceOfN(rapid.Custom(func(rt *rapid.T) c07Req {
		q := c07Req{Kind: rapid.SampledFrom([]string{"pub1", "pub2", "pub2", "sub", "sub", "unsub"}).Draw(rt, "kind")}
		if q.Kind == "sub" {
			q.NFilters = rapid.IntRange(1, 4).Draw(rt, "nf")
			for i := 0; i < q.NFilters; i++ {
				q.Codes = append(q.Codes, rapid.SampledFrom([]int{0, 1, 2, 0x80}).Draw(rt, "code"))
			}
			if q.NFilters >= 2 && rapid.IntRange(0, 3).Draw(rt, "repeat") == 0 {
				q.RepeatAt = rapid.IntRange(1, q.NFilters-1).Draw(rt, "repeatAt")
			}
		}
		q.Cancel = rapid.IntRange(0, 5).Draw(rt, "cancel") == 0
		if (q.Kind == "pub1" || q.Kind == "pub2") && rapid.IntRange(0, 4).Draw(rt, "reused") == 0 {
			q.IDBehind = rapid.IntRange(1, 200).Draw(rt, "idBehind")
		}
		if q.Kind == "pub2" && !q.Cancel {
			q.CancelWithRec = rapid.IntRange(0, 3).Draw(rt, "cancelWithRec") == 0
		}
		return q
	}), 1, 8).Draw(rt, "reqs")
	seenBehind := map[int]bool{}
	for i := range c.Reqs {
		if b := c.Reqs[i].IDBehind; b > 0 {
			if seenBehind[b] {
				c.Reqs[i].IDBehind = 0
			}
			seenBehind[b] = true
		}
	}
	// at most one wrong-length SUBACK, and it is answered last (the client then drops the link)
	if rapid.IntRange(0, 5).Draw(rt, "wrongLen") == 0 {
		for i := len(c.Reqs) - 1; i >= 0; i-- {
			if c.Reqs[i].Kind == "sub" {
				c.Reqs[i].WrongLen = rapid.SampledFrom([]int{-1, 1, 2}).Draw(rt, "delta")
				if c.Reqs[i].NFilters+c.Reqs[i].WrongLen < 0 {
					c.Reqs[i].WrongLen = 1
				}
				break
			}
		}
	}
	if rapid.IntRange(0, 1).Draw(rt, "wrap") == 0 {
		c.WrapIn = rapid.IntRange(1, len(c.Reqs)).Draw(rt, "wrapIn")
	}
	n := len(c.Reqs)
	for i := range c.Reqs {
		if c.Reqs[i].WrongLen != 0 {
			c.Reqs[i].Cancel = false
		}
	}
	foreign := rapid.SliceOfN(rapid.Custom(func(rt *rapid.T) c07Item {
		it := c07Item{Yields: rapid.IntRange(0, 3).Draw(rt, "y")}
		switch rapid.IntRange(0, 3).Draw(rt, "fk") {
		case 0:
			it.Op, it.Type = "unused", rapid.SampledFrom(c07AckTypes).Draw(rt, "t")
		case 1:
			it.Op, it.Type, it.Req = "wrongkind", rapid.SampledFrom(c07AckTypes).Draw(rt, "t"), rapid.IntRange(0, n-1).Draw(rt, "r")
		case 2:
			it.Op, it.Req = "dupack", rapid.IntRange(0, n-1).Draw(rt, "r")
		default:
			it.Op, it.Type = "unsolicited", rapid.SampledFrom([]int{rtConnAck, rtPingResp}).Draw(rt, "t")
			it.Glue = rapid.Bool().Draw(rt, "glue")
		}
		return it
	}), 0, 10).Draw(rt, "foreign")
	// the real acknowledgements: one per request, two for QoS2, in a generated order
	var acks []c07Item
	for i, q := range c.Reqs {
		acks = append(acks, c07Item{Op: "ack", Req: i})
		if q.Kind == "pub2" {
			acks = append(acks, c07Item{Op: "ack", Req: i})
		}
	}
	acks = rapid.Permutation(acks).Draw(rt, "ackOrder")
	// interleave: positions of the foreign items among the acks
	script := append([]c07Item{}, acks...)
	for _, f := range foreign {
		pos := rapid.IntRange(0, len(script)).Draw(rt, "pos")
		script = append(script[:pos], append([]c07Item{f}, script[pos:]...)...)
	}
	// wrong-length SUBACK goes last
	for i, q := range c.Reqs {
		if q.WrongLen != 0 {
			var rest, mine []c07Item
			for _, it := range script {
				if it.Op == "ack" && it.Req == i {
					mine = append(mine, it)
				} else {
					rest = append(rest, it)
				}
			}
			script = append(rest, mine...)
		}
	}
	c.Script = script
	c.DisconnectAt = -1
	if rapid.IntRange(0, 4).Draw(rt, "disconnect") == 0 {
		c.DisconnectAt = rapid.IntRange(0, len(script)).Draw(rt, "disconnectAt")
	}
	return c
}

type c07State struct {
	id        int
	ackStage  int   // number of real acks sent (pub2: 0,1,2)
	finalSeq  int64 // log seq of the final ack, 0 = unsent
	recSeq    int64 // pub2: seq of PUBREC
	retSeq    int64 // seq of the call's return, 0 = still blocked
	err       error
	subs      []Subscription
	returned  bool
	sentTypes []int // ack types already sent for this request (for dupack)
}

func c07Run(tb rapid.TB, c c07Case) {
	r := newBaseRig()
	defer r.shutdown()
	r.connect(tb)
	if c.WrapIn > 0 {
		atomic.StoreUint32(&r.cli.idLast, uint32(0xFFFF-c.WrapIn+1))
	}
	n := len(c.Reqs)
	idBase := uint16(atomic.LoadUint32(&r.cli.idLast))
	ownID := func(q c07Req) uint16 {
		if q.IDAhead > 0 {
			return idBase + uint16(q.IDAhead)
		}
		if q.IDBehind == 0 {
			return 0
		}
		return idBase - uint16(q.IDBehind) // (0 means "choose one": harmless)
	}
	st := make([]*c07State, n)
	rctx := make([]context.Context, n)
	rcancel := make([]context.CancelFunc, n)
	var mu sync.Mutex
	var wg sync.WaitGroup
	ctx, cancel := context.WithCancel(context.Background())
	defer cancel()
	fail := func(format string, args ...interface{}) {
		cancel()
		vFailf(tb, r.log.strings(150), format, args...)
	}

	for i := range c.Reqs {
		st[i] = &c07State{}
		rctx[i], rcancel[i] = context.WithCancel(ctx)
	}
	startGate := make(chan struct{}) // all callers are released together (so that they meet at the id counter)
	for i, q := range c.Reqs {
		i, q := i, q
		wg.Add(1)
		go func() {
			defer wg.Done()
			<-startGate
			tag := fmt.Sprintf("r/%d", i)
			var err error
			var subs []Subscription
			switch q.Kind {
			case "pub1":
				err = r.cli.Publish(rctx[i], &Message{Topic: tag, QoS: QoS1, Payload: []byte("p"), ID: ownID(q)})
			case "pub2":
				err = r.cli.Publish(rctx[i], &Message{Topic: tag, QoS: QoS2, Payload: []byte("p"), ID: ownID(q)})
			case "sub":
				req := []Subscription{{Topic: tag, QoS: QoS2}}
				for k := 1; k < q.NFilters; k++ {
					if k == q.RepeatAt {
						req = append(req, Subscription{Topic: tag, QoS: QoS(k % 3)})
						continue
					}
					req = append(req, Subscription{Topic: fmt.Sprintf("%s/f%d", tag, k), QoS: QoS(k % 3)})
				}
				subs, err = r.cli.Subscribe(rctx[i], req...)
			case "unsub":
				err = r.cli.Unsubscribe(rctx[i], tag)
			}
			seq := r.log.add(1, "RET", nil, fmt.Sprintf("req %d (%s) err=%v", i, q.Kind, err))
			mu.Lock()
			st[i].retSeq, st[i].err, st[i].subs, st[i].returned = seq, err, subs, true
			mu.Unlock()
		}()
	}
	close(startGate)
	isReq := func(pk refPacket) bool {
		return pk.Type == rtPublish || pk.Type == rtSubscribe || pk.Type == rtUnsubscribe
	}
	if !r.peer.waitRecv(20*time.Second, isReq, n) {
		fail("only %d of %d requests reached the wire", r.peer.countRecv(isReq), n)
	}
	used := map[int]bool{}
	for _, pk := range r.peer.received() {
		if !isReq(pk) {
			continue
		}
		name := pk.Topic
		if pk.Type != rtPublish {
			name = pk.Filters[0]
		}
		var idx int
		fmt.Sscanf(name, "r/%d", &idx)
		st[idx].id = pk.ID
		crossKind := len(c.Reqs) > 0 && c.Reqs[0].IDAhead > 0 && (idx == 0 || pk.ID == int(ownID(c.Reqs[0])))
		if used[pk.ID] && !crossKind {
			fail("two outstanding requests carry the same packet identifier %d: acknowledgements cannot be routed to the right one", pk.ID)
		}
		used[pk.ID] = true
	}
	// some callers give up before any answer: their calls return the context's error; whatever the broker
	// sends for them afterwards is late and must not disturb anybody
	for i, q := range c.Reqs {
		if !q.Cancel {
			continue
		}
		rcancel[i]()
		i := i
		if !vWaitUntil(20*time.Second, func() bool { mu.Lock(); defer mu.Unlock(); return st[i].returned }) {
			fail("request %d (%s) did not return after its context was cancelled", i, q.Kind)
		}
		mu.Lock()
		if !errors.Is(st[i].err, context.Canceled) {
			e := st[i].err
			mu.Unlock()
			fail("request %d (%s) was cancelled before any answer but returned %v", i, q.Kind, e)
		}
		st[i].finalSeq = -1 // cancelled: exempt from the return-after-own-ack rule
		mu.Unlock()
	}
	unusedID := 1
	nextUnused := func() int {
		for used[unusedID] {
			unusedID++
		}
		used[unusedID] = true
		return unusedID
	}

	// checkBlocked: no request whose own final ack is unsent has returned
	checkBlocked := func(after string) {
		mu.Lock()
		defer mu.Unlock()
		for i, s := range st {
			if s.returned && s.finalSeq == 0 && !c.Reqs[i].Cancel && !c.Reqs[i].CancelWithRec {
				fail("request %d (%s, id %d) returned (err=%v) %s although its own acknowledgement was never sent", i, c.Reqs[i].Kind, s.id, s.err, after)
			}
		}
	}
	ackPkt := func(typ, id int) refPacket {
		p := refPacket{Type: typ, ID: id}
		if typ == rtSubAck {
			p.Codes = []int{0}
		}
		return p
	}
	finalType := map[string]int{"pub1": rtPubAck, "pub2": rtPubComp, "sub": rtSubAck, "unsub": rtUnsubAck}

	foreignCount := 0
	var glued []refPacket // an unsolicited packet to be sent in one buffer with the marker that follows it
	outstandingAtFirstAck := -1
	disconnected := false
	for si, it := range c.Script {
		if c.DisconnectAt == si {
			disconnected = true
			break
		}
		for y := 0; y < it.Yields; y++ {
			runtime.Gosched()
		}
		switch it.Op {
		case "ack":
			s, q := st[it.Req], c.Reqs[it.Req]
			if outstandingAtFirstAck < 0 {
				outstandingAtFirstAck = n
			}
			switch {
			case q.Kind == "pub2" && q.CancelWithRec && s.ackStage == 0:
				s.recSeq = r.peer.send(refPacket{Type: rtPubRec, ID: s.id})
				rcancel[it.Req]()
				s.ackStage = 1
				s.sentTypes = append(s.sentTypes, rtPubRec)
				ir := it.Req
				if !vWaitUntil(20*time.Second, func() bool { mu.Lock(); defer mu.Unlock(); return st[ir].returned }) {
					fail("request %d (pub2) did not return after its context was cancelled", ir)
				}
				mu.Lock()
				e := s.err
				s.finalSeq = -1
				mu.Unlock()
				if e == nil {
					fail("request %d (pub2, id %d) returned success although only PUBREC was ever sent (context cancelled at that moment): no PUBCOMP exists", ir, s.id)
				}
			case q.Kind == "pub2" && q.CancelWithRec:
				r.peer.send(refPacket{Type: rtPubComp, ID: s.id}) // late, nobody waits
			case q.Kind == "pub2" && s.ackStage == 0:
				s.recSeq = r.peer.send(refPacket{Type: rtPubRec, ID: s.id})
				s.ackStage = 1
				s.sentTypes = append(s.sentTypes, rtPubRec)
				if q.Cancel {
					break // nobody is waiting any more: no PUBREL will follow
				}
				// the client's PUBREL must follow; wait for it before PUBCOMP can be "its own"
				if !r.peer.waitRecv(20*time.Second, func(pk refPacket) bool { return pk.Type == rtPubRel && pk.ID == s.id }, 1) {
					fail("no PUBREL for id %d after PUBREC", s.id)
				}
			case q.Kind == "pub2":
				seq := r.peer.send(refPacket{Type: rtPubComp, ID: s.id})
				mu.Lock()
				if !q.Cancel {
					s.finalSeq = seq
				}
				mu.Unlock()
				s.ackStage = 2
				s.sentTypes = append(s.sentTypes, rtPubComp)
			case q.Kind == "sub":
				if q.WrongLen != 0 {
					// the client drops the link on this SUBACK: let every other (already acknowledged) call return
					// first, otherwise "my ack arrived" and "the connection closed" race in their select
					vWaitUntil(20*time.Second, func() bool {
						mu.Lock()
						defer mu.Unlock()
						for j, o := range st {
							if j != it.Req && o.finalSeq != 0 && !o.returned {
								return false
							}
						}
						return true
					})
				}
				codes := append([]int{}, q.Codes...)
				for k := 0; k < q.WrongLen; k++ {
					codes = append(codes, 1)
				}
				if q.WrongLen < 0 {
					codes = codes[:len(codes)+q.WrongLen]
				}
				seq := r.peer.send(refPacket{Type: rtSubAck, ID: s.id, Codes: codes})
				mu.Lock()
				if !q.Cancel {
					s.finalSeq = seq
				}
				mu.Unlock()
				s.sentTypes = append(s.sentTypes, rtSubAck)
			default:
				seq := r.peer.send(refPacket{Type: finalType[q.Kind], ID: s.id})
				mu.Lock()
				if !q.Cancel {
					s.finalSeq = seq
				}
				mu.Unlock()
				s.sentTypes = append(s.sentTypes, finalType[q.Kind])
			}
			continue
		case "unused":
			r.peer.send(ackPkt(it.Type, nextUnused()))
		case "wrongkind":
			s, q := st[it.Req], c.Reqs[it.Req]
			// an acknowledgement kind that is NOT the one this request is waiting for right now
			waiting := finalType[q.Kind]
			if q.Kind == "pub2" && s.ackStage == 0 {
				waiting = rtPubRec
			}
			if it.Type == waiting {
				continue
			}
			mu.Lock()
			done := s.finalSeq != 0
			mu.Unlock()
			if done {
				continue
			}
			r.peer.send(ackPkt(it.Type, s.id))
		case "dupack":
			s := st[it.Req]
			if len(s.sentTypes) == 0 {
				continue
			}
			r.peer.send(ackPkt(s.sentTypes[len(s.sentTypes)-1], s.id))
		case "unsolicited":
			if it.Glue {
				glued = []refPacket{{Type: it.Type}}
			} else {
				r.peer.send(refPacket{Type: it.Type})
			}
		}
		foreignCount++
		ok := r.peer.syncBehind(20*time.Second, glued)
		glued = nil
		if !ok {
			fail("client stopped processing after foreign item %+v; Err()=%v", it, r.cli.Err())
		}
		checkBlocked(fmt.Sprintf("after foreign item %+v", it))
	}
	if disconnected || c.DisconnectAt == len(c.Script) {
		// the application disconnects while some requests still wait: those must fail, never report success
		dctx, dc := context.WithTimeout(context.Background(), 20*time.Second)
		derr := r.cli.Disconnect(dctx)
		dc()
		dd := make(chan struct{})
		go func() { wg.Wait(); close(dd) }()
		select {
		case <-dd:
		case <-time.After(20 * time.Second):
			fail("requests still blocked 20 s after Disconnect (returned %v); goroutines:\n%s", derr, vGoroutineDump())
		}
		nPending := 0
		for i, s := range st {
			if s.finalSeq == 0 {
				nPending++
				if s.err == nil {
					fail("request %d (%s, id %d) returned success after Disconnect although its acknowledgement was never sent", i, c.Reqs[i].Kind, s.id)
				}
			}
		}
		labels := []string{fmt.Sprintf("reqs:%d", n), fmt.Sprintf("disconnect-with-pending:%d", minInt(nPending, 4))}
		vCount("C07", n >= 2 && nPending >= 1, vJSON(c), labels, func() interface{} { return c })
		return
	}
	donech := make(chan struct{})
	go func() { wg.Wait(); close(donech) }()
	select {
	case <-donech:
	case <-time.After(20 * time.Second):
		fail("requests still blocked although every acknowledgement was sent; goroutines:\n%s", vGoroutineDump())
	}
	evs := r.log.snapshot()
	relSeq := map[int]int64{}
	for _, e := range evs {
		if e.Kind == "W" && e.Pkt.Type == rtPubRel {
			if _, ok := relSeq[e.Pkt.ID]; !ok {
				relSeq[e.Pkt.ID] = e.Seq
			}
		}
	}
	wrongLenSeen := false
	for i, s := range st {
		q := c.Reqs[i]
		if q.Cancel || q.CancelWithRec {
			continue
		}
		if s.finalSeq == 0 || s.retSeq < s.finalSeq {
			fail("request %d (%s, id %d) returned at #%d, before its own acknowledgement was sent (#%d)", i, q.Kind, s.id, s.retSeq, s.finalSeq)
		}
		if q.Kind == "pub2" && relSeq[s.id] < s.recSeq {
			fail("request %d: PUBREL id %d written at #%d before PUBREC was sent (#%d)", i, s.id, relSeq[s.id], s.recSeq)
		}
		if q.WrongLen != 0 {
			wrongLenSeen = true
			if !errors.Is(s.err, ErrInvalidSubAck) {
				fail("request %d: SUBACK with %d codes for %d filters returned %v, want ErrInvalidSubAck", i, q.NFilters+q.WrongLen, q.NFilters, s.err)
			}
			continue
		}
		if s.err != nil {
			fail("request %d (%s, id %d) failed: %v", i, q.Kind, s.id, s.err)
		}
		if q.Kind == "sub" {
			if len(s.subs) != q.NFilters {
				fail("request %d: Subscribe returned %d subscriptions for %d filters", i, len(s.subs), q.NFilters)
			}
			for k, sub := range s.subs {
				wantTopic := fmt.Sprintf("r/%d", i)
				if k > 0 && k != q.RepeatAt {
					wantTopic = fmt.Sprintf("r/%d/f%d", i, k)
				}
				if sub.Topic != wantTopic || int(sub.QoS) != q.Codes[k] {
					fail("request %d: returned subscription %d = (%q, %#x), want (%q, %#x)", i, k, sub.Topic, int(sub.QoS), wantTopic, q.Codes[k])
				}
			}
		}
	}
	labels := []string{fmt.Sprintf("reqs:%d", n), fmt.Sprintf("foreign:%d", foreignCount)}
	if wrongLenSeen {
		labels = append(labels, "suback-wrong-length")
	}
	vCount("C07", n >= 2 && foreignCount >= 1, vJSON(c), labels, func() interface{} { return c })
}

func TestVerifC07_AckRouting(t *testing.T) {
	vRun(t, "C07", vOpts{CurFile: true}, c07Gen, c07Run)
}

// ---------------------------------------------------------------------------
// an acknowledgement that takes seconds, on a connection with a keep-alive value, while other requests come and go

type c07SlowCase struct {
	Kind      string `json:"kind"`      // pub1 pub2 sub unsub: the slow request
	KeepAlive int    `json:"keepAlive"` // seconds requested in CONNECT
	Others    int    `json:"others"`    // requests made (and acknowledged at once) while the slow one waits
}

func TestVerifC07_SlowAck(t *testing.T) {
	vRun(t, "C07", vOpts{CurFile: true}, func(rt *rapid.T) c07SlowCase {
		return c07SlowCase{Kind: rapid.SampledFrom([]string{"pub1", "pub2", "sub", "unsub"}).Draw(rt, "kind"), KeepAlive: 1, Others: rapid.IntRange(1, 3).Draw(rt, "others")}
	}, func(tb rapid.TB, c c07SlowCase) {
		r := newBaseRig()
		defer r.shutdown()
		held := -1
		r.peer.auto = func(p *bpeer, pk refPacket) {
			isReq := pk.Type == rtPublish || pk.Type == rtSubscribe || pk.Type == rtUnsubscribe
			if isReq && held < 0 {
				held = pk.ID // the first request: answered much later
				return
			}
			bpeerBrokerAuto(p, pk)
		}
		r.connect(tb, WithKeepAlive(uint16(c.KeepAlive)))
		ctx, cancel := context.WithTimeout(context.Background(), 60*time.Second)
		defer cancel()
		ret := make(chan error, 1)
		go func() {
			switch c.Kind {
			case "pub1":
				ret <- r.cli.Publish(ctx, &Message{Topic: "slow", QoS: QoS1, Payload: []byte("s")})
			case "pub2":
				ret <- r.cli.Publish(ctx, &Message{Topic: "slow", QoS: QoS2, Payload: []byte("s")})
			case "sub":
				_, err := r.cli.Subscribe(ctx, Subscription{Topic: "slow", QoS: QoS1})
				ret <- err
			default:
				ret <- r.cli.Unsubscribe(ctx, "slow")
			}
		}()
		isReq := func(pk refPacket) bool {
			return pk.Type == rtPublish || pk.Type == rtSubscribe || pk.Type == rtUnsubscribe
		}
		if !r.peer.waitRecv(20*time.Second, isReq, 1) {
			vFailf(tb, r.log.strings(20), "the slow request was not written")
		}
		// longer than two keep-alive periods (the client itself is not pinged here: nothing ends the connection)
		time.Sleep(time.Duration(2*c.KeepAlive)*time.Second + 300*time.Millisecond)
		for i := 0; i < c.Others; i++ {
			if err := r.cli.Publish(ctx, &Message{Topic: "other", QoS: QoS1, Payload: []byte("o")}); err != nil {
				vFailf(tb, r.log.strings(30), "request %d made while the slow one waits failed: %v", i, err)
			}
		}
		select {
		case err := <-ret:
			vFailf(tb, r.log.strings(30), "the slow %s returned (%v) before its acknowledgement was sent", c.Kind, err)
		default:
		}
		r.peer.mu.Lock()
		id := held
		r.peer.mu.Unlock()
		switch c.Kind {
		case "pub1":
			r.peer.send(refPacket{Type: rtPubAck, ID: id})
		case "pub2":
			r.peer.send(refPacket{Type: rtPubRec, ID: id})
			if !r.peer.waitRecv(20*time.Second, func(pk refPacket) bool { return pk.Type == rtPubRel && pk.ID == id }, 1) {
				vFailf(tb, r.log.strings(30), "no PUBREL after the (late) PUBREC of the slow publish: its own acknowledgement did not reach it")
			}
			r.peer.send(refPacket{Type: rtPubComp, ID: id})
		case "sub":
			r.peer.send(refPacket{Type: rtSubAck, ID: id, Codes: []int{1}})
		default:
			r.peer.send(refPacket{Type: rtUnsubAck, ID: id})
		}
		vCount("C07", true, vJSON(c), []string{"slow-ack:" + c.Kind}, func() interface{} { return c })
		select {
		case err := <-ret:
			if err != nil {
				vFailf(tb, r.log.strings(30), "the slow %s failed although its own acknowledgement arrived: %v", c.Kind, err)
			}
		case <-time.After(20 * time.Second):
			vFailf(tb, map[string]interface{}{"log": r.log.strings(30), "goroutines": vGoroutineDump()}, "the slow %s (id %d) has not returned 20 s after its own acknowledgement was sent", c.Kind, id)
		}
	})
}
