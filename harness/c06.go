//go:build verif

package mqtt

// C06 — arbitrary broker bytes never crash the client; malformed input ends the link.

import (
	"bytes"
	"context"
	"errors"
	"fmt"
	"io"
	"runtime"
	"sync"
	"sync/atomic"
	"testing"
	"time"

	"pgregory.net/rapid"
)

// ---------------------------------------------------------------------------
// target 1: the packet parsers

type c06ParseCase struct {
	Type     int    `json:"type"` // rt* of an inbound type, or 0 for unpackString
	Flag     int    `json:"flag"`
	Contents []byte `json:"contents"`
}

var c06InboundTypes = []int{rtConnAck, rtPublish, rtPubAck, rtPubRec, rtPubRel, rtPubComp, rtSubAck, rtUnsubAck, rtPingResp}

// c06RefParse is the reference reading of (type, flag, contents):
// mustReject: the input belongs to one of the malformed classes the property lists;
// want: the fields an accepting parser must have produced (when !mustReject).
func c06RefParse(typ int, flag byte, b []byte) (mustReject bool, want refPacket) {
	want.Type = typ
	be16 := func(b []byte) int { return int(b[0])<<8 | int(b[1]) }
	switch typ {
	case rtConnAck:
		if flag != 0 || len(b) != 2 {
			return true, want
		}
		want.SessionPresent = b[0]&1 != 0
		want.Code = int(b[1])
	case rtPubAck, rtPubRec, rtPubComp, rtUnsubAck, rtSubAck:
		if flag != 0 || len(b) < 2 {
			return true, want
		}
		want.ID = be16(b)
		if typ == rtSubAck {
			for _, c := range b[2:] {
				want.Codes = append(want.Codes, int(c))
			}
		}
	case rtPubRel:
		if flag != 2 || len(b) < 2 {
			return true, want
		}
		want.ID = be16(b)
	case rtPingResp:
		if flag != 0 {
			return true, want
		}
	case rtPublish:
		want.Dup = flag&8 != 0
		want.QoS = int(flag>>1) & 3
		want.Retain = flag&1 != 0
		if want.QoS == 3 || len(b) < 2 {
			return true, want
		}
		n := be16(b)
		if len(b) < 2+n {
			return true, want
		}
		want.Topic = string(b[2 : 2+n])
		if bytes.IndexByte(b[2:2+n], 0) >= 0 {
			return true, want
		}
		rest := b[2+n:]
		if want.QoS > 0 {
			if len(rest) < 2 {
				return true, want
			}
			want.ID = be16(rest)
			rest = rest[2:]
		}
		want.Payload = rest
	}
	return false, want
}

func c06CallParser(typ int, flag byte, contents []byte) (got refPacket, err error, panicked interface{}) {
	defer func() {
		if r := recover(); r != nil {
			panicked = r
		}
	}()
	got.Type = typ
	in := append([]byte{}, contents...)
	switch typ {
	case rtConnAck:
		var p *pktConnAck
		if p, err = (&pktConnAck{}).Parse(flag, in); err == nil {
			got.SessionPresent, got.Code = p.SessionPresent, int(p.Code)
		}
	case rtPublish:
		var p *pktPublish
		if p, err = (&pktPublish{}).Parse(flag, in); err == nil {
			m := p.Message
			got.Topic, got.Payload, got.QoS, got.Retain, got.Dup, got.ID = m.Topic, m.Payload, int(m.QoS), m.Retain, m.Dup, int(m.ID)
		}
	case rtPubAck:
		var p *pktPubAck
		if p, err = (&pktPubAck{}).Parse(flag, in); err == nil {
			got.ID = int(p.ID)
		}
	case rtPubRec:
		var p *pktPubRec
		if p, err = (&pktPubRec{}).Parse(flag, in); err == nil {
			got.ID = int(p.ID)
		}
	case rtPubRel:
		var p *pktPubRel
		if p, err = (&pktPubRel{}).Parse(flag, in); err == nil {
			got.ID = int(p.ID)
		}
	case rtPubComp:
		var p *pktPubComp
		if p, err = (&pktPubComp{}).Parse(flag, in); err == nil {
			got.ID = int(p.ID)
		}
	case rtSubAck:
		var p *pktSubAck
		if p, err = (&pktSubAck{}).Parse(flag, in); err == nil {
			got.ID = int(p.ID)
			for _, c := range p.Codes {
				got.Codes = append(got.Codes, int(c))
			}
		}
	case rtUnsubAck:
		var p *pktUnsubAck
		if p, err = (&pktUnsubAck{}).Parse(flag, in); err == nil {
			got.ID = int(p.ID)
		}
	case rtPingResp:
		_, err = (&pktPingResp{}).Parse(flag, in)
	case 0:
		var n int
		var s string
		if n, s, err = unpackString(in); err == nil {
			got.Topic, got.ID = s, n
		}
	}
	return
}

func c06GenContents(rt *rapid.T, typ int) []byte {
	switch rapid.IntRange(0, 5).Draw(rt, "shape") {
	case 0:
		return rapid.SliceOfN(rapid.Byte(), 0, 4).Draw(rt, "short")
	case 1:
		return rapid.SliceOfN(rapid.Byte(), 0, 40).Draw(rt, "random")
	default:
		// well-formed body of that type, then mutated: truncated / extended / byte flipped
		var p refPacket
		switch typ {
		case rtConnAck:
			p = refPacket{Type: typ, SessionPresent: rapid.Bool().Draw(rt, "sp"), Code: rapid.IntRange(0, 6).Draw(rt, "code")}
		case rtPublish, 0:
			p = refPacket{Type: rtPublish, QoS: rapid.IntRange(0, 2).Draw(rt, "q"), Topic: refGenTopic(rt, "t"), Payload: rapid.SliceOfN(rapid.Byte(), 0, 12).Draw(rt, "pl"), ID: rapid.IntRange(1, 65535).Draw(rt, "id")}
		case rtSubAck:
			p = refPacket{Type: typ, ID: rapid.IntRange(0, 65535).Draw(rt, "id"), Codes: rapid.SliceOfN(rapid.SampledFrom([]int{0, 1, 2, 128}), 0, 4).Draw(rt, "codes")}
		case rtPingResp:
			p = refPacket{Type: typ}
		default:
			p = refPacket{Type: typ, ID: rapid.IntRange(0, 65535).Draw(rt, "id")}
		}
		enc := refEncode(p)
		_, used, _ := refDecodeLen(enc[1:])
		body := append([]byte{}, enc[1+used:]...)
		switch rapid.IntRange(0, 4).Draw(rt, "mut") {
		case 0:
			body = body[:rapid.IntRange(0, len(body)).Draw(rt, "cut")]
		case 1:
			body = append(body, rapid.SliceOfN(rapid.Byte(), 1, 4).Draw(rt, "extra")...)
		case 2:
			if len(body) > 0 {
				i := rapid.IntRange(0, len(body)-1).Draw(rt, "at")
				body[i] = rapid.SampledFrom([]byte{0, 0xFF, 0x80, 0xED, 0xC0, 1}).Draw(rt, "val")
			}
		}
		return body
	}
}

func c06ParseCheck(tb rapid.TB, c c06ParseCase) {
	flag := byte(c.Flag)
	got, err, pan := c06CallParser(c.Type, flag, c.Contents)
	name := refTypeNames[c.Type]
	if c.Type == 0 {
		name = "unpackString"
	}
	labels := []string{"parse:" + name}
	if pan != nil {
		vCount("C06", true, vJSON(c), labels, func() interface{} { return c })
		vFailf(tb, nil, "%s parser panicked on flag %#x contents % x: %v", name, flag, c.Contents, pan)
	}
	if c.Type == 0 {
		// unpackString: length prefix bounds + no U+0000
		valid := len(c.Contents) >= 2 && len(c.Contents) >= 2+(int(c.Contents[0])<<8|int(c.Contents[1]))
		var s []byte
		if valid {
			s = c.Contents[2 : 2+(int(c.Contents[0])<<8|int(c.Contents[1]))]
		}
		mustReject := !valid || bytes.IndexByte(s, 0) >= 0
		vCount("C06", len(c.Contents) >= 2, vJSON(c), append(labels, fmt.Sprintf("mustReject:%v", mustReject)), func() interface{} { return c })
		if mustReject && err == nil {
			vFailf(tb, nil, "unpackString accepted % x (must be rejected: out of bounds or U+0000)", c.Contents)
		}
		if err == nil && (got.ID != 2+len(s) || (refUTF8OK(s) && got.Topic != string(s))) {
			vFailf(tb, nil, "unpackString(% x) = (%d, %q), reference (%d, %q)", c.Contents, got.ID, got.Topic, 2+len(s), s)
		}
		return
	}
	mustReject, want := c06RefParse(c.Type, flag, c.Contents)
	vCount("C06", len(c.Contents) >= 1, vJSON(c), append(labels, fmt.Sprintf("mustReject:%v", mustReject)), func() interface{} { return c })
	if mustReject {
		if err == nil {
			vFailf(tb, nil, "%s parser accepted malformed input flag %#x contents % x", name, flag, c.Contents)
		}
		return
	}
	if err != nil {
		// Rejecting more than the listed classes (e.g. ill-formed UTF-8) is allowed for
		// PUBLISH topics only; every other well-formed body must be accepted.
		if c.Type == rtPublish && !refUTF8OK([]byte(want.Topic)) {
			return
		}
		vFailf(tb, nil, "%s parser rejected well-formed input flag %#x contents % x: %v", name, flag, c.Contents, err)
	}
	if c.Type == rtPublish && !refUTF8OK([]byte(want.Topic)) {
		got.Topic, want.Topic = "", "" // ill-formed UTF-8: what the parser returns is unspecified
	}
	if !refPacketsEqual(got, want) {
		vFailf(tb, nil, "%s parser on flag %#x contents % x returned %s, reference %s", name, flag, c.Contents, vJSON(got), vJSON(want))
	}
}

func refUTF8OK(b []byte) bool {
	for len(b) > 0 {
		r, n := refDecodeRune(b)
		if r < 0 {
			return false
		}
		b = b[n:]
	}
	return true
}

// refDecodeRune: strict UTF-8 (no overlong forms, no surrogates, <= U+10FFFF); -1 = ill-formed.
func refDecodeRune(b []byte) (int, int) {
	c := b[0]
	switch {
	case c < 0x80:
		return int(c), 1
	case c&0xE0 == 0xC0:
		if len(b) < 2 || b[1]&0xC0 != 0x80 {
			return -1, 1
		}
		r := int(c&0x1F)<<6 | int(b[1]&0x3F)
		if r < 0x80 {
			return -1, 1
		}
		return r, 2
	case c&0xF0 == 0xE0:
		if len(b) < 3 || b[1]&0xC0 != 0x80 || b[2]&0xC0 != 0x80 {
			return -1, 1
		}
		r := int(c&0x0F)<<12 | int(b[1]&0x3F)<<6 | int(b[2]&0x3F)
		if r < 0x800 || (r >= 0xD800 && r <= 0xDFFF) {
			return -1, 1
		}
		return r, 3
	case c&0xF8 == 0xF0:
		if len(b) < 4 || b[1]&0xC0 != 0x80 || b[2]&0xC0 != 0x80 || b[3]&0xC0 != 0x80 {
			return -1, 1
		}
		r := int(c&0x07)<<18 | int(b[1]&0x3F)<<12 | int(b[2]&0x3F)<<6 | int(b[3]&0x3F)
		if r < 0x10000 || r > 0x10FFFF {
			return -1, 1
		}
		return r, 4
	}
	return -1, 1
}

func c06ParseGen(rt *rapid.T) c06ParseCase {
	typ := rapid.SampledFrom(append([]int{0}, c06InboundTypes...)).Draw(rt, "type")
	c := c06ParseCase{Type: typ}
	want := 0
	if typ == rtPubRel {
		want = 2
	}
	if typ == rtPublish {
		c.Flag = rapid.IntRange(0, 15).Draw(rt, "flag")
	} else if rapid.IntRange(0, 3).Draw(rt, "badflag") == 0 {
		c.Flag = rapid.IntRange(0, 15).Draw(rt, "flag")
	} else {
		c.Flag = want
	}
	c.Contents = c06GenContents(rt, typ)
	return c
}

func TestVerifC06_Parsers(t *testing.T) {
	vRun(t, "C06", vOpts{}, c06ParseGen, c06ParseCheck)
}

func FuzzVerifC06Parsers(f *testing.F) {
	// seeds: the vectors of TestPacketParseError plus the shortest bodies
	for _, typ := range c06InboundTypes {
		f.Add(byte(typ), byte(0), []byte{})
		f.Add(byte(typ), byte(0), []byte{0})
		f.Add(byte(typ), byte(2), []byte{0, 1})
		f.Add(byte(typ), byte(0), []byte{0, 1, 2})
	}
	f.Add(byte(rtPublish), byte(0x06), []byte{0, 1, 'a'})
	f.Add(byte(rtPublish), byte(0x02), []byte{0, 1, 'a', 0})
	f.Add(byte(rtPublish), byte(0x00), []byte{0, 3, 'a', 0, 'b'})
	f.Add(byte(0), byte(0), []byte{0, 5, 'a'})
	f.Fuzz(func(t *testing.T, typ byte, flag byte, contents []byte) {
		ok := typ == 0
		for _, x := range c06InboundTypes {
			if int(typ) == x {
				ok = true
			}
		}
		if !ok {
			return
		}
		c := c06ParseCase{Type: int(typ), Flag: int(flag & 15), Contents: contents}
		vSetCurrent("C06", "TestVerifC06_Parsers", c, false)
		c06ParseCheck(t, c)
	})
}

// ---------------------------------------------------------------------------
// target 2: readPacket on arbitrary byte strings

type c06ReadCase struct {
	First   int    `json:"first"`
	LenHdr  []byte `json:"lenHdr"`  // the bytes following the first byte (length field, possibly ill-formed)
	BodyLen int    `json:"bodyLen"` // zero bytes that follow
	Chunk   int    `json:"chunk"`   // max bytes per Read (0 = unlimited)
}

type c06CountingReader struct {
	data   []byte
	zeros  int
	chunk  int
	maxReq int
	reads  int
}

func (r *c06CountingReader) Read(p []byte) (int, error) {
	r.reads++
	if len(p) > r.maxReq {
		r.maxReq = len(p)
	}
	n := len(p)
	if r.chunk > 0 && n > r.chunk {
		n = r.chunk
	}
	if len(r.data) > 0 {
		n = copy(p[:n], r.data)
		r.data = r.data[n:]
		return n, nil
	}
	if r.zeros == 0 {
		return 0, io.EOF
	}
	if n > r.zeros {
		n = r.zeros
	}
	for i := 0; i < n; i++ {
		p[i] = 0
	}
	r.zeros -= n
	return n, nil
}

func c06ReadGen(rt *rapid.T) c06ReadCase {
	c := c06ReadCase{First: rapid.IntRange(0, 255).Draw(rt, "first"), Chunk: rapid.SampledFrom([]int{0, 0, 1, 2, 5, 4096}).Draw(rt, "chunk")}
	switch rapid.IntRange(0, 5).Draw(rt, "hdr") {
	case 0: // random bytes
		c.LenHdr = rapid.SliceOfN(rapid.Byte(), 0, 12).Draw(rt, "raw")
	case 1: // n continuation bytes, terminated or not
		n := rapid.IntRange(1, 12).Draw(rt, "n")
		for i := 0; i < n; i++ {
			c.LenHdr = append(c.LenHdr, 0x80|byte(rapid.IntRange(0, 127).Draw(rt, "d")))
		}
		if rapid.Bool().Draw(rt, "term") {
			c.LenHdr = append(c.LenHdr, byte(rapid.IntRange(0, 127).Draw(rt, "last")))
		}
	case 2: // hostile constants
		c.LenHdr = rapid.SampledFrom([][]byte{
			{0xFF, 0xFF, 0xFF, 0xFF, 0x7F}, {0xFF, 0xFF, 0xFF, 0xFF, 0xFF, 0xFF, 0xFF, 0xFF, 0x7F},
			{0x80, 0x80, 0x80, 0x80, 0x80, 0x80, 0x80, 0x80, 0x80, 0x01}, {0xFF, 0xFF, 0xFF, 0x7F}, {0x80, 0x80, 0x80, 0x80, 0x01},
			{0xFF, 0xFF, 0xFF, 0xFF, 0xFF, 0xFF, 0xFF, 0xFF, 0xFF, 0x7F}, {0x80, 0x00},
		}).Draw(rt, "const")
	default: // valid encodings of small lengths
		n := rapid.IntRange(0, 70000).Draw(rt, "n")
		if rapid.Bool().Draw(rt, "small") {
			n = rapid.IntRange(0, 300).Draw(rt, "ns")
		}
		c.LenHdr = refEncodeLen(n)
	}
	c.BodyLen = rapid.SampledFrom([]int{0, 0, 1, 2, 10, 300, 70001}).Draw(rt, "body")
	if c.Chunk > 0 && c.Chunk < 64 && c.BodyLen > 2000 {
		c.Chunk = 4096
	}
	// declared lengths above 64 KB cost an allocation of that size each: keep them rare
	if len(c.LenHdr) >= 3 && c.LenHdr[0]&0x80 != 0 && c.LenHdr[1]&0x80 != 0 && (c.LenHdr[2]&0x7F >= 0x04 || c.LenHdr[2]&0x80 != 0) &&
		(len(c.LenHdr) < 4 || c.LenHdr[2]&0x80 == 0 || c.LenHdr[3]&0x80 == 0) {
		if rapid.IntRange(0, 299).Draw(rt, "allowBig") != 0 {
			c.LenHdr[2] &= 0x03
		}
	}
	return c
}

func c06ReadCheck(tb rapid.TB, c c06ReadCase) {
	data := append([]byte{byte(c.First)}, c.LenHdr...)
	r := &c06CountingReader{data: append([]byte{}, data...), zeros: c.BodyLen, chunk: c.Chunk}
	var typ packetType
	var flag byte
	var body []byte
	var err error
	var pan interface{}
	func() {
		defer func() { pan = recover() }()
		typ, flag, body, err = readPacket(r)
	}()
	// reference view of the header
	stream := append(append([]byte{}, data...), make([]byte, c.BodyLen)...)
	var refLen, refUsed int
	var refErr error
	if len(stream) >= 2 {
		refLen, refUsed, refErr = refDecodeLen(stream[1:])
	} else {
		refErr = errRefShort
	}
	class := "hdr:ok"
	switch {
	case refErr == errRefShort:
		class = "hdr:truncated"
	case refErr != nil:
		class = "hdr:" + refErr.Error()
	case len(stream) < 1+refUsed+refLen:
		class = "hdr:ok-body-truncated"
	}
	vCount("C06", len(c.LenHdr) >= 1, vJSON(c), []string{"read:" + class}, func() interface{} { return c })
	if pan != nil {
		vFailf(tb, nil, "readPacket panicked on % x (+%d zero bytes): %v", data, c.BodyLen, pan)
	}
	if r.maxReq > refMaxRemaining {
		vFailf(tb, nil, "readPacket asked the reader for %d bytes at once (> 268435455) on % x", r.maxReq, data)
	}
	longField := len(c.LenHdr) >= 4 && c.LenHdr[0]&0x80 != 0 && c.LenHdr[1]&0x80 != 0 && c.LenHdr[2]&0x80 != 0 && c.LenHdr[3]&0x80 != 0
	if longField && err == nil {
		vFailf(tb, nil, "readPacket accepted a remaining-length field longer than 4 bytes: % x", data)
	}
	if refErr == nil && len(stream) >= 1+refUsed+refLen {
		if err != nil {
			vFailf(tb, nil, "readPacket failed on a complete well-formed packet % x (+%d): %v", data, c.BodyLen, err)
		}
		if int(typ) != c.First&0xF0 || int(flag) != c.First&0x0F || !bytes.Equal(body, stream[1+refUsed:1+refUsed+refLen]) {
			vFailf(tb, nil, "readPacket(% x +%d) = type %x flag %x body %d bytes; reference type %x flag %x body %d bytes", data, c.BodyLen, int(typ), flag, len(body), c.First&0xF0, c.First&0x0F, refLen)
		}
	}
	if (refErr == errRefShort || (refErr == nil && len(stream) < 1+refUsed+refLen)) && err == nil {
		vFailf(tb, nil, "readPacket returned a packet from a truncated stream % x (+%d)", data, c.BodyLen)
	}
}

func TestVerifC06_ReadPacket(t *testing.T) {
	vRun(t, "C06", vOpts{CurFile: true}, c06ReadGen, c06ReadCheck)
}

func FuzzVerifC06ReadPacket(f *testing.F) {
	f.Add([]byte{0x30, 0xFF, 0xFF, 0xFF, 0xFF, 0x7F}, 0)
	f.Add([]byte{0x30, 0x80, 0x80, 0x80, 0x80, 0x80, 0x80, 0x80, 0x80, 0x80, 0x01}, 3)
	f.Add([]byte{0x20, 0x02, 0x00, 0x00}, 0)
	f.Add([]byte{0x30, 0xFF, 0xFF, 0xFF, 0x7F}, 10)
	f.Add([]byte{}, 0)
	f.Fuzz(func(t *testing.T, data []byte, body int) {
		if len(data) == 0 {
			data = []byte{0}
		}
		if body < 0 || body > 100000 {
			body = 0
		}
		c := c06ReadCase{First: int(data[0]), LenHdr: data[1:], BodyLen: body}
		vSetCurrent("C06", "TestVerifC06_ReadPacket", c, true)
		c06ReadCheck(t, c)
	})
}

// ---------------------------------------------------------------------------
// target 3: a connected client

type c06Bad struct {
	Class string `json:"class"`
	Bytes []byte `json:"bytes"`
	Close bool   `json:"close"` // the peer closes the stream after these bytes (truncation classes)
}

type c06ConnCase struct {
	Prefix  []c04Step `json:"prefix"`
	Bad     c06Bad    `json:"bad"`
	Junk    []byte    `json:"junk,omitempty"`
	MaxRead int       `json:"maxRead,omitempty"`
	// Glued: no prefix; the malformed packet sits in the same buffer directly behind the CONNACK, so the reader
	// may hit it before Connect has returned
	Glued bool `json:"glued,omitempty"`
	// NoHandler: the application never registered a handler (malformed packets must end the link all the same)
	NoHandler bool `json:"noHandler,omitempty"`
	// HandlerAt > 0: the handler is registered only after HandlerAt-1 packets of the prefix (between a QoS2 PUBLISH and its
	// PUBREL, for instance)
	HandlerAt int `json:"handlerAt,omitempty"`
	// BlockedWrite: when the malformed packet arrives an application Publish is parked inside Transport.Write (the peer has
	// stopped reading): the link must end all the same, and the parked call must come back
	BlockedWrite bool `json:"blockedWrite,omitempty"`
}

func c06GenBad(rt *rapid.T) c06Bad {
	ackTypes := []int{rtConnAck, rtPubAck, rtPubRec, rtPubRel, rtPubComp, rtSubAck, rtUnsubAck, rtPingResp}
	validPkt := func() []byte {
		typ := rapid.SampledFrom(c06InboundTypes).Draw(rt, "vt")
		p := refPacket{Type: typ, ID: rapid.IntRange(1, 1000).Draw(rt, "id")}
		if typ == rtPublish {
			p.QoS = rapid.IntRange(0, 2).Draw(rt, "q")
			p.Topic = refGenTopic(rt, "t")
			p.Payload = rapid.SliceOfN(rapid.Byte(), 0, 200).Draw(rt, "pl")
		}
		if typ == rtSubAck {
			p.Codes = []int{0}
		}
		return refEncode(p)
	}
	switch rapid.IntRange(0, 7).Draw(rt, "class") {
	case 0:
		b := validPkt()
		return c06Bad{Class: "truncated", Bytes: b[:rapid.IntRange(1, len(b)-1).Draw(rt, "cut")], Close: true}
	case 1:
		n := rapid.IntRange(4, 11).Draw(rt, "n")
		b := []byte{byte(rapid.SampledFrom(c06InboundTypes).Draw(rt, "t") << 4)}
		for i := 0; i < n; i++ {
			b = append(b, 0x80|byte(rapid.IntRange(0, 127).Draw(rt, "d")))
		}
		// (the peer may also stay silent afterwards: four length bytes with the continuation bit are already one too many)
		closes := rapid.Bool().Draw(rt, "closes")
		if rapid.Bool().Draw(rt, "term") {
			b = append(b, byte(rapid.IntRange(0, 127).Draw(rt, "last")))
			return c06Bad{Class: "length-field-too-long", Bytes: b, Close: closes}
		}
		return c06Bad{Class: "length-field-non-terminating", Bytes: b, Close: closes}
	case 2:
		typ := rapid.SampledFrom(ackTypes).Draw(rt, "t")
		want := 0
		if typ == rtPubRel {
			want = 2
		}
		fl := rapid.IntRange(0, 15).Draw(rt, "fl")
		if fl == want {
			fl = want ^ 1
		}
		body := []byte{0, 7}
		if typ == rtPingResp {
			body = nil
		}
		if typ == rtSubAck {
			body = []byte{0, 7, 0}
		}
		if typ == rtConnAck {
			body = []byte{0, 0}
		}
		return c06Bad{Class: "illegal-flags", Bytes: append([]byte{byte(typ<<4 | fl), byte(len(body))}, body...)}
	case 3:
		body := refAppendStr(nil, "a/b")
		body = append(body, 0, 9, 'x')
		return c06Bad{Class: "publish-qos3", Bytes: append([]byte{byte(0x36 | rapid.SampledFrom([]int{0, 1, 8, 9}).Draw(rt, "f")), byte(len(body))}, body...)}
	case 4:
		typ := rapid.SampledFrom([]int{0, 15, rtConnect, rtSubscribe, rtUnsubscribe, rtPingReq, rtDisconnect}).Draw(rt, "t")
		body := rapid.SliceOfN(rapid.Byte(), 0, 6).Draw(rt, "body")
		return c06Bad{Class: "unknown-or-client-only-type", Bytes: append([]byte{byte(typ<<4 | rapid.IntRange(0, 15).Draw(rt, "fl")), byte(len(body))}, body...)}
	case 5:
		typ := rapid.SampledFrom([]int{rtConnAck, rtPubAck, rtPubRec, rtPubRel, rtPubComp, rtSubAck, rtUnsubAck}).Draw(rt, "t")
		n := rapid.IntRange(0, 1).Draw(rt, "n")
		if typ == rtConnAck {
			n = rapid.SampledFrom([]int{0, 1, 3}).Draw(rt, "nc")
		}
		fl := 0
		if typ == rtPubRel {
			fl = 2
		}
		body := make([]byte, n)
		return c06Bad{Class: "body-shorter-than-fixed-fields", Bytes: append([]byte{byte(typ<<4 | fl), byte(n)}, body...)}
	case 6:
		q := rapid.IntRange(0, 2).Draw(rt, "q")
		var body []byte
		switch rapid.IntRange(0, 3).Draw(rt, "how") {
		case 0:
			body = nil
		case 1:
			body = []byte{0}
		case 2:
			body = []byte{0, 5, 'a', 'b'} // topic length beyond the body
		default:
			q = rapid.IntRange(1, 2).Draw(rt, "q12")
			body = refAppendStr(nil, "ab")
			if rapid.Bool().Draw(rt, "half") {
				body = append(body, 0)
			}
		}
		return c06Bad{Class: "publish-too-short", Bytes: append([]byte{byte(0x30 | q<<1), byte(len(body))}, body...)}
	default:
		topic := []byte(refGenTopic(rt, "t"))
		at := rapid.IntRange(0, len(topic)).Draw(rt, "at")
		topic = append(topic[:at], append([]byte{0}, topic[at:]...)...)
		body := refAppendBin(nil, topic)
		body = append(body, 'p')
		return c06Bad{Class: "nul-in-topic", Bytes: append([]byte{0x30, byte(len(body))}, body...)}
	}
}

func c06ConnRun(tb rapid.TB, c c06ConnCase) {
	if c.Glued {
		c06GluedRun(tb, c)
		return
	}
	r := newBaseRig()
	defer r.shutdown()
	cc := c04Case{Handler: "on", Steps: c.Prefix, MaxRead: c.MaxRead}
	from := 0
	if c.NoHandler {
		cc.Handler, from = "off", -1
	} else if c.HandlerAt > 0 && c.HandlerAt-1 <= len(c.Prefix) {
		cc.Handler, cc.HalfAt, from = "half", c.HandlerAt-1, c.HandlerAt-1
	}
	obs, ok := c04Drive(tb, r, cc)
	vCount("C06", len(c.Prefix) >= 1, vJSON(c), []string{"conn:" + c.Bad.Class}, func() interface{} { return c })
	if !ok {
		vFailf(tb, r.log.strings(60), "client stopped processing the well-formed prefix; Err()=%v", r.cli.Err())
	}
	exp, _, _ := c04Reference(c.Prefix, from)
	if msg := c04Compare(exp, obs); msg != "" {
		vFailf(tb, r.log.strings(80), "well-formed packets before the malformed one were not processed normally: %s", msg)
	}
	if err := r.cli.Err(); err != nil {
		vFailf(tb, r.log.strings(60), "Err() = %v although only well-formed packets were sent so far", err)
	}
	select {
	case <-r.cli.Done():
		vFailf(tb, r.log.strings(60), "Done() closed although only well-formed packets were sent so far")
	default:
	}
	parked := make(chan error, 1)
	if c.BlockedWrite {
		atomic.StoreInt32(&r.conn.blockWrites, 1)
		go func() {
			pctx, pc := context.WithTimeout(context.Background(), 60*time.Second)
			defer pc()
			parked <- r.cli.Publish(pctx, &Message{Topic: "parked", Payload: []byte("x")})
		}()
		vWaitUntil(5*time.Second, func() bool { return vGoroutinesWith("(*memConn).Write(", "sync.(*Cond).Wait") >= 1 })
	}
	seqBad := r.peer.sendRaw(c.Bad.Bytes, "malformed:"+c.Bad.Class)
	if c.Bad.Close {
		r.conn.peerClose(false)
	} else if len(c.Junk) > 0 {
		r.peer.sendRaw(c.Junk, "junk")
	}
	done := r.cli.Done()
	// Wait for Done(). Give up early only when the reader has consumed every byte and the
	// connection has still not ended 3 s later (idle with the malformed packet swallowed).
	var idleSince time.Time
	closed := false
	vWaitUntil(30*time.Second, func() bool {
		select {
		case <-done:
			closed = true
			return true
		default:
		}
		if r.conn.unread() == 0 {
			if idleSince.IsZero() {
				idleSince = time.Now()
			} else if time.Since(idleSince) > 3*time.Second {
				return true
			}
		} else {
			idleSince = time.Time{}
		}
		return false
	})
	if !closed {
		vFailf(tb, map[string]interface{}{"log": r.log.strings(60), "goroutines": vGoroutineDump()},
			"a malformed packet (%s: % x) did not end the connection: Done() still open, Err()=%v", c.Bad.Class, c.Bad.Bytes, r.cli.Err())
	}
	if c.BlockedWrite {
		select {
		case <-parked:
		case <-time.After(20 * time.Second):
			vFailf(tb, map[string]interface{}{"log": r.log.strings(60), "goroutines": vGoroutineDump()}, "the connection ended, but the Publish that was inside Transport.Write has not returned 20 s later")
		}
	}
	err := r.cli.Err()
	if err == nil {
		vFailf(tb, r.log.strings(60), "connection ended by a malformed packet (%s) but Err() is nil", c.Bad.Class)
	}
	var closedEv []vStateEv
	for _, s := range r.stateLog() {
		if s.State == StateClosed {
			closedEv = append(closedEv, s)
		}
	}
	if len(closedEv) != 1 || closedEv[0].Seq < seqBad {
		vFailf(tb, r.log.strings(60), "state callback reported Closed %d times (want once, after the malformed packet)", len(closedEv))
	}
	if closedEv[0].Err == nil || closedEv[0].Err.Error() != err.Error() {
		vFailf(tb, r.log.strings(60), "state callback Closed carried %v, Err() returns %v", closedEv[0].Err, err)
	}
	var want error
	switch c.Bad.Class {
	case "illegal-flags", "publish-qos3", "unknown-or-client-only-type":
		want = ErrInvalidPacket
	case "body-shorter-than-fixed-fields", "publish-too-short":
		want = ErrInvalidPacketLength
	case "nul-in-topic":
		want = ErrInvalidRune
	case "truncated":
		if !errors.Is(err, io.EOF) && !errors.Is(err, io.ErrUnexpectedEOF) {
			vFailf(tb, r.log.strings(60), "truncated stream ended the link with %v, want io.EOF / io.ErrUnexpectedEOF", err)
		}
	}
	if want != nil && !errors.Is(err, want) {
		vFailf(tb, r.log.strings(60), "malformed packet of class %s (% x) ended the link with %v, want errors.Is(%v)", c.Bad.Class, c.Bad.Bytes, err, want)
	}
	if req := r.conn.maxReadReq; req > refMaxRemaining {
		vFailf(tb, nil, "the client asked the transport for %d bytes at once (> 268435455)", req)
	}
}

// c06GluedRun: CONNACK and a malformed packet arrive back to back.
func c06GluedRun(tb rapid.TB, c c06ConnCase) {
	r := newBaseRig()
	defer r.shutdown()
	r.peer.auto = func(p *bpeer, pk refPacket) {
		if pk.Type == rtConnect {
			p.log.add(1, "B-RAW", nil, "CONNACK + malformed:"+c.Bad.Class)
			p.conn.peerSend(append(refEncode(refPacket{Type: rtConnAck}), c.Bad.Bytes...))
			if c.Bad.Close {
				p.conn.peerClose(false)
			}
		}
	}
	ctx, cancel := context.WithTimeout(context.Background(), 30*time.Second)
	defer cancel()
	_, cerr := r.cli.Connect(ctx, "verif-glued")
	vCount("C06", true, vJSON(c), []string{"conn-glued:" + c.Bad.Class}, func() interface{} { return c })
	done := r.cli.Done()
	var idleSince time.Time
	closed := false
	vWaitUntil(30*time.Second, func() bool {
		select {
		case <-done:
			closed = true
			return true
		default:
		}
		if r.conn.unread() == 0 {
			if idleSince.IsZero() {
				idleSince = time.Now()
			} else if time.Since(idleSince) > 3*time.Second {
				return true
			}
		} else {
			idleSince = time.Time{}
		}
		return false
	})
	if !closed {
		vFailf(tb, map[string]interface{}{"log": r.log.strings(40), "goroutines": vGoroutineDump()}, "a malformed packet (%s) directly behind CONNACK did not end the connection (Connect returned %v)", c.Bad.Class, cerr)
	}
	err := r.cli.Err()
	if err == nil {
		vFailf(tb, r.log.strings(40), "connection ended by a malformed packet (%s) directly behind CONNACK, but Err() is nil (Connect returned %v)", c.Bad.Class, cerr)
	}
	nClosed := 0
	var closedErr error
	for _, s := range r.stateLog() {
		if s.State == StateClosed {
			nClosed++
			closedErr = s.Err
		}
	}
	if nClosed != 1 {
		vFailf(tb, r.log.strings(40), "state callback reported Closed %d times (want once)", nClosed)
	}
	if closedErr == nil || closedErr.Error() != err.Error() {
		vFailf(tb, r.log.strings(40), "state callback Closed carried %v, Err() returns %v", closedErr, err)
	}
}

func TestVerifC06_Connected(t *testing.T) {
	vRun(t, "C06", vOpts{CurFile: true, ReplayReps: 50}, func(rt *rapid.T) c06ConnCase {
		if rapid.IntRange(0, 3).Draw(rt, "glued") == 0 {
			return c06ConnCase{Bad: c06GenBad(rt), Glued: true}
		}
		return c06ConnCase{
			Prefix:       c04GenSteps(rt, 8),
			Bad:          c06GenBad(rt),
			Junk:         rapid.SliceOfN(rapid.Byte(), 0, 16).Draw(rt, "junk"),
			MaxRead:      rapid.SampledFrom([]int{0, 0, 1, 3}).Draw(rt, "maxRead"),
			NoHandler:    rapid.IntRange(0, 2).Draw(rt, "noHandler") == 0,
			HandlerAt:    rapid.SampledFrom([]int{0, 0, 1, 2, 3, 5}).Draw(rt, "handlerAt"),
			BlockedWrite: rapid.IntRange(0, 4).Draw(rt, "blockedWrite") == 0,
		}
	}, c06ConnRun)
}

// ---------------------------------------------------------------------------
// target 4: well-formed but hostile answers while requests are in flight

type c06Answer struct {
	Kind  string `json:"kind"`  // ack type name: SUBACK PUBACK PUBREC PUBCOMP UNSUBACK CONNACK PINGRESP PUBREL PUBLISH
	Req   int    `json:"req"`   // index of the request whose id is used (-1: unused id)
	Codes []int  `json:"codes"` // SUBACK payload bytes
}

type c06InFlightCase struct {
	Reqs    []c07Req    `json:"reqs"`
	Answers []c06Answer `json:"answers"`
}

var c06AnswerTypes = map[string]int{"SUBACK": rtSubAck, "PUBACK": rtPubAck, "PUBREC": rtPubRec, "PUBCOMP": rtPubComp, "UNSUBACK": rtUnsubAck, "PUBREL": rtPubRel}

// c06InFlightRun: 1..4 requests are blocked waiting; the peer answers with acknowledgements that are
// well-formed packets but inconsistent with the requests (SUBACK with too many / too few / reserved
// codes, acknowledgements of another kind carrying a pending id, ...), then closes. Nothing may
// panic, in the reader or in the calling goroutines, and every call must return.
func c06InFlightRun(tb rapid.TB, c c06InFlightCase) {
	r := newBaseRig()
	defer r.shutdown()
	r.connect(tb)
	ctx, cancel := context.WithTimeout(context.Background(), 30*time.Second)
	defer cancel()
	n := len(c.Reqs)
	var wg sync.WaitGroup
	panics := make(chan string, n)
	for i, q := range c.Reqs {
		i, q := i, q
		wg.Add(1)
		go func() {
			defer wg.Done()
			defer func() {
				if p := recover(); p != nil {
					panics <- fmt.Sprintf("request %d (%s): %v", i, q.Kind, p)
				}
			}()
			tag := fmt.Sprintf("r/%d", i)
			switch q.Kind {
			case "pub1":
				_ = r.cli.Publish(ctx, &Message{Topic: tag, QoS: QoS1})
			case "pub2":
				_ = r.cli.Publish(ctx, &Message{Topic: tag, QoS: QoS2})
			case "sub":
				req := []Subscription{{Topic: tag, QoS: QoS2}}
				for k := 1; k < q.NFilters; k++ {
					req = append(req, Subscription{Topic: fmt.Sprintf("%s/f%d", tag, k), QoS: QoS1})
				}
				_, _ = r.cli.Subscribe(ctx, req...)
			case "unsub":
				_ = r.cli.Unsubscribe(ctx, tag)
			}
		}()
	}
	isReq := func(pk refPacket) bool {
		return pk.Type == rtPublish || pk.Type == rtSubscribe || pk.Type == rtUnsubscribe
	}
	if !r.peer.waitRecv(20*time.Second, isReq, n) {
		vFailf(tb, r.log.strings(40), "only %d of %d requests reached the wire", r.peer.countRecv(isReq), n)
	}
	ids := make([]int, n)
	for _, pk := range r.peer.received() {
		if !isReq(pk) {
			continue
		}
		name := pk.Topic
		if pk.Type != rtPublish {
			name = pk.Filters[0]
		}
		var idx int
		fmt.Sscanf(name, "r/%d", &idx)
		ids[idx] = pk.ID
	}
	for _, a := range c.Answers {
		id := 7
		if a.Req >= 0 && a.Req < n {
			id = ids[a.Req]
		}
		switch a.Kind {
		case "CONNACK":
			r.peer.send(refPacket{Type: rtConnAck})
		case "PINGRESP":
			r.peer.send(refPacket{Type: rtPingResp})
		case "PUBLISH":
			r.peer.send(refPacket{Type: rtPublish, QoS: 1, ID: id, Topic: "x"})
		default:
			r.peer.send(refPacket{Type: c06AnswerTypes[a.Kind], ID: id, Codes: a.Codes})
		}
	}
	r.peer.sync(5 * time.Second)
	r.conn.peerClose(false)
	donech := make(chan struct{})
	go func() { wg.Wait(); close(donech) }()
	select {
	case <-donech:
	case <-time.After(25 * time.Second):
		vFailf(tb, map[string]interface{}{"log": r.log.strings(40), "goroutines": vGoroutineDump()}, "calls still blocked after hostile answers and the end of the connection")
	}
	select {
	case p := <-panics:
		vFailf(tb, r.log.strings(40), "a calling goroutine panicked on a well-formed but inconsistent answer: %s", p)
	default:
	}
	vCount("C06", len(c.Answers) >= 1, vJSON(c), []string{"inflight"}, func() interface{} { return c })
}

func TestVerifC06_InFlight(t *testing.T) {
	vRun(t, "C06", vOpts{CurFile: true}, func(rt *rapid.T) c06InFlightCase {
		var c c06InFlightCase
		c.Reqs = rapid.SliceOfN(rapid.Custom(func(rt *rapid.T) c07Req {
			q := c07Req{Kind: rapid.SampledFrom([]string{"pub1", "pub2", "sub", "sub", "unsub"}).Draw(rt, "kind")}
			if q.Kind == "sub" {
				q.NFilters = rapid.IntRange(1, 3).Draw(rt, "nf")
			}
			return q
		}), 1, 4).Draw(rt, "reqs")
		n := len(c.Reqs)
		c.Answers = rapid.SliceOfN(rapid.Custom(func(rt *rapid.T) c06Answer {
			a := c06Answer{Kind: rapid.SampledFrom([]string{"SUBACK", "SUBACK", "SUBACK", "PUBACK", "PUBREC", "PUBCOMP", "UNSUBACK", "PUBREL", "CONNACK", "PINGRESP", "PUBLISH"}).Draw(rt, "kind"), Req: rapid.IntRange(-1, n-1).Draw(rt, "req")}
			if a.Kind == "SUBACK" {
				a.Codes = rapid.SliceOfN(rapid.SampledFrom([]int{0, 1, 2, 3, 0x7F, 0x80, 0xFF}), 0, 6).Draw(rt, "codes")
			}
			return a
		}), 1, 8).Draw(rt, "answers")
		return c
	}, c06InFlightRun)
}

// ---------------------------------------------------------------------------
// target 5: hostile broker content reaching the retrying client (state kept across reconnects)

// TestVerifC06_ViaRetry: SUBACKs with failure / reserved return codes, garbage after a generated packet and
// refused connections against the ReconnectClient with session-less reconnects afterwards: whatever the broker
// sent must not crash the process later (e.g. when the subscriptions are restored) nor wedge the client.
func TestVerifC06_ViaRetry(t *testing.T) {
	vRun(t, "C06", vOpts{CurFile: true, ReplayReps: 5}, func(rt *rapid.T) e4Case {
		o := e4GenOpts{MaxSteps: 8, QoSWeights: []int{1, 2, 2}, SubWeight: 14, MaxFaults: 2, Outages: false, PreConnect: true,
			FilterPool: []string{"a", "b", "a/+"}, FaultKinds: []string{"cut", "cutType", "garbage"}, MaxConn: 3}
		c := e4Case{Cfg: e4GenConfig(rt)}
		c.Cfg.SessionKept = false
		c.Cfg.GrantMax = 0
		c.Steps = e4GenSteps(rt, o)
		c.Faults = e4GenFaults(rt, o)
		n := rapid.IntRange(1, 3).Draw(rt, "nHostile")
		for i := 0; i < n; i++ {
			c.Faults = append(c.Faults, e4Fault{Kind: "hostileSuback", Conn: rapid.IntRange(1, 3).Draw(rt, "hconn"), Nth: rapid.IntRange(1, 3).Draw(rt, "hnth"),
				Code: rapid.SampledFrom([]int{0x80, 0x03, 0x7F, 0xFF, 0x04}).Draw(rt, "hcode")})
		}
		// a session-less reconnect after the hostile answers, so that the remembered subscriptions are restored
		c.Steps = append(c.Steps, e4Step{Kind: "settle"}, e4Step{Kind: "cutNow"}, e4Step{Kind: "settle"}, e4Step{Kind: "cutNow"})
		return c
	}, func(tb rapid.TB, c e4Case) {
		e4Check(tb, "C06", c, func(r *e4Result) string {
			if r.Stuck {
				return "after hostile broker answers the client is idle with work undone: " + e4Undone(r)
			}
			return ""
		}, func(r *e4Result) (bool, []string) {
			hostile := false
			for _, f := range r.Fired {
				if len(f) > 7 && f[:7] == "hostile" {
					hostile = true
				}
			}
			return hostile, []string{"via-retry-client"}
		})
	})
}

// ---------------------------------------------------------------------------
// target 6: the allocation bound for one (legal, large) packet

type c06AllocCase struct {
	BodyMB int `json:"bodyMB"`
}

// TestVerifC06_AllocBound: receiving one legal packet with a large body must not allocate more than the protocol's
// maximum packet size in total (measured as the process' cumulative allocation while the packet is read).
func TestVerifC06_AllocBound(t *testing.T) {
	vRun(t, "C06", vOpts{CurFile: true}, func(rt *rapid.T) c06AllocCase {
		return c06AllocCase{BodyMB: rapid.SampledFrom([]int{1, 40, 100, 144, 200, 255}).Draw(rt, "bodyMB")}
	}, func(tb rapid.TB, c c06AllocCase) {
		n := c.BodyMB << 20
		if n > refMaxRemaining {
			n = refMaxRemaining
		}
		z := &c05ZeroReader{head: append([]byte{0x30}, refEncodeLen(n)...), left: n}
		runtime.GC()
		var m0, m1 runtime.MemStats
		runtime.ReadMemStats(&m0)
		_, _, body, err := readPacket(z)
		runtime.ReadMemStats(&m1)
		vCount("C06", n >= 1<<20, vJSON(c), []string{"alloc-bound"}, func() interface{} { return c })
		if err != nil || len(body) != n {
			vFailf(tb, nil, "readPacket of a legal %d-byte body failed: %v (got %d bytes)", n, err, len(body))
		}
		alloc := m1.TotalAlloc - m0.TotalAlloc
		body = nil
		runtime.GC()
		if alloc > refMaxRemaining+(8<<20) {
			vFailf(tb, nil, "reading one packet with a %d-byte body allocated %d bytes in total, more than the protocol's maximum packet size (268435455)", n, alloc)
		}
	})
}
