//go:build verif

package mqtt

// E4 bounded-exhaustive leg: systematic exploration of connection-cut placements.
//
// The random generators sample fault plans; this leg enumerates them for small workloads.  A plan is a list of cuts,
// the i-th one on the i-th connection, each "before" or "after" the j-th packet the client writes on that connection
// (request lost / processed but acknowledgement lost; j = 1 is CONNECT, so "after 1" loses the CONNACK).  The tree is
// explored depth first and is driven by what the client really does: a plan is run, its oracle is applied, and its
// children are the plan extended by one cut at every packet position of the first connection that was not cut (the one
// on which the run completed).  Up to the depth bound this visits every reachable placement of cuts at packet
// boundaries exactly once - there is nothing to sample.

import (
	"fmt"
	"testing"
)

type e4EnumWorkload struct {
	Name  string
	Cfg   e4Config
	Steps []e4Step
	Depth int // maximal number of faults (one per connection 1..Depth)
	// Extra: further fault kinds tried at every level beside the cuts ("dialErr": attempt k fails to dial,
	// "refuse": its CONNACK refuses); each uses up one connection number like a cut does
	Extra []string
}

func e4EnumSteps(steps ...e4Step) []e4Step {
	n := 0
	out := append([]e4Step{}, steps...)
	for i := range out {
		switch out[i].Kind {
		case "pub", "sub", "unsub":
			n++
			out[i].Idx = n
		}
	}
	return out
}

func e4Pub(qos int, topic string) e4Step { return e4Step{Kind: "pub", QoS: qos, Topic: topic} }

var e4Connect = e4Step{Kind: "connect"}

// e4ExploreCuts runs the whole tree of w and returns (runs, deepest plan). A violation ends the test with a failure
// file naming replayTest, the random test of the same property that replays e4Case values.
func e4ExploreCuts(t *testing.T, prop, replayTest string, w e4EnumWorkload, oracle func(*e4Result) string) (runs int, nodesAtDepth []int) {
	nodesAtDepth = make([]int, w.Depth+1)
	var visit func(plan []e4Fault)
	visit = func(plan []e4Fault) {
		c := e4Case{Cfg: w.Cfg, Steps: append([]e4Step{}, w.Steps...), Faults: append([]e4Fault{}, plan...)}
		raw := vSetCurrent(prop, replayTest, c, true)
		r := e4Run(c)
		runs++
		nodesAtDepth[len(plan)]++
		fired := 0
		for _, e := range r.Log {
			if e.Kind == "CUT" || e.Kind == "DIAL-ERR" || (e.Kind == "B" && e.Pkt != nil && e.Pkt.Type == rtConnAck && e.Pkt.Code != 0) {
				fired++
			}
		}
		vCount(prop, fired >= 1, raw, []string{fmt.Sprintf("enum:%s", w.Name), fmt.Sprintf("enum:cuts=%d", len(plan))}, func() interface{} {
			return map[string]interface{}{"case": c, "fired": r.Fired, "trace_tail": r.trace(12)}
		})
		if !r.Quiesced && !r.Stuck && !r.Disconnected {
			vInconclusive(prop, "enumerated case did not reach quiescence within its budget while still making progress")
			return
		}
		if msg := oracle(r); msg != "" {
			tr := map[string]interface{}{"trace": r.trace(400)}
			if r.Stuck {
				tr["goroutines"] = r.Dump
			}
			vWriteFailure(msg, tr)
			t.Fatalf("ORACLE (workload %s, plan %v): %s", w.Name, plan, msg)
		}
		if len(plan) >= w.Depth {
			return
		}
		// the connection on which this run completed: the first one without a cut
		k := len(plan) + 1
		m := 0
		for _, e := range r.Log {
			if e.Conn == k && e.Kind == "W" && e.Pkt != nil {
				m++
			}
		}
		for j := 1; j <= m; j++ {
			for _, after := range []bool{false, true} {
				visit(append(append([]e4Fault{}, plan...), e4Fault{Kind: "cut", Conn: k, Pkt: j, After: after}))
			}
		}
		for _, kind := range w.Extra {
			f := e4Fault{Kind: kind, Conn: k}
			if kind == "refuse" {
				f.Code = 1 + (k+len(plan))%5
			}
			visit(append(append([]e4Fault{}, plan...), f))
		}
	}
	visit(nil)
	return runs, nodesAtDepth
}

func e4EnumDepth(quick, thorough int) int {
	if vEnv("VERIF_TIER") == "thorough" {
		return thorough
	}
	return quick
}

func e4EnumRun(t *testing.T, prop, replayTest string, ws []e4EnumWorkload, oracle func(*e4Result) string) {
	if vReplayOrCorpusOnly() {
		t.Skip("replay mode")
	}
	total := 0
	for _, w := range ws {
		if w.Cfg.BaseUs == 0 {
			w.Cfg.BaseUs, w.Cfg.MaxUs = 100, 400
		}
		n, per := e4ExploreCuts(t, prop, replayTest, w, oracle)
		total += n
		vExtraSet(prop, "enum_"+w.Name, map[string]interface{}{"depth": w.Depth, "plans_per_depth": per})
	}
	vExtraSet(prop, "enum_plans_total", total)
}

func e4EnumCfgs(name string, steps []e4Step, depth int, cfgs map[string]e4Config, extra ...string) []e4EnumWorkload {
	var out []e4EnumWorkload
	for _, k := range []string{"A", "B", "lost", "always", "clean", "timeout", "direct", "repeat", "repeatB"} {
		if cfg, ok := cfgs[k]; ok {
			out = append(out, e4EnumWorkload{Name: name + "/" + k, Cfg: cfg, Steps: steps, Depth: depth, Extra: extra})
		}
	}
	return out
}

var (
	e4CfgA       = e4Config{SessionKept: true}
	e4CfgB       = e4Config{SessionKept: true, MethodB: true}
	e4CfgLost    = e4Config{SessionKept: false}
	e4CfgAlways  = e4Config{SessionKept: true, AlwaysResub: true}
	e4CfgClean   = e4Config{SessionKept: false, CleanSession: true}
	e4CfgTimeout = e4Config{SessionKept: true, RespTimeoutMs: 60000, MethodB: true}
	e4CfgDirect  = e4Config{SessionKept: true, DirectQoS0: true}
	e4CfgRepeat  = e4Config{SessionKept: true, RepeatPubrec: true}
	e4CfgRepeatB = e4Config{SessionKept: true, RepeatPubrec: true, MethodB: true}
)

// TestVerifC02_CutEnum: every placement of up to 3 (thorough: 4) consecutive cuts around a QoS2 exchange, both
// receiver methods, alone and next to other requests.
func TestVerifC02_CutEnum(t *testing.T) {
	ab := map[string]e4Config{"A": e4CfgA, "B": e4CfgB}
	abt := map[string]e4Config{"A": e4CfgA, "B": e4CfgB, "timeout": e4CfgTimeout, "always": e4CfgAlways, "repeat": e4CfgRepeat, "repeatB": e4CfgRepeatB}
	var ws []e4EnumWorkload
	ws = append(ws, e4EnumCfgs("q2", e4EnumSteps(e4Connect, e4Pub(2, "t/a")), e4EnumDepth(3, 5), abt)...)
	ws = append(ws, e4EnumCfgs("q1,q2", e4EnumSteps(e4Connect, e4Pub(1, "t/a"), e4Pub(2, "t/b")), e4EnumDepth(2, 3), ab)...)
	ws = append(ws, e4EnumCfgs("q2,q2", e4EnumSteps(e4Connect, e4Pub(2, "t/a"), e4Pub(2, "t/b")), e4EnumDepth(2, 3), ab)...)
	ws = append(ws, e4EnumCfgs("pre:q2|q2", e4EnumSteps(e4Pub(2, "t/a"), e4Connect, e4Pub(2, "x")), e4EnumDepth(2, 3), ab)...)
	ws = append(ws, e4EnumCfgs("sub,q2", e4EnumSteps(e4Connect, e4Step{Kind: "sub", QoS: 1}, e4Pub(2, "t/a")), e4EnumDepth(2, 3), map[string]e4Config{"A": e4CfgA, "always": e4CfgAlways})...)
	e4EnumRun(t, "C02", "TestVerifC02_ExactlyOnce", ws, e4OracleC02)
}

// TestVerifC12_CutEnum: the same trees under the retransmission oracle, with caller-chosen identifiers and retained
// messages among them, and sessions that are not kept.
func TestVerifC12_CutEnum(t *testing.T) {
	ab := map[string]e4Config{"A": e4CfgA, "B": e4CfgB, "lost": e4CfgLost, "repeat": e4CfgRepeat}
	var ws []e4EnumWorkload
	ws = append(ws, e4EnumCfgs("q2", e4EnumSteps(e4Connect, e4Step{Kind: "pub", QoS: 2, Topic: "t/a", Retain: true}), e4EnumDepth(3, 5), ab, "dialErr")...)
	ws = append(ws, e4EnumCfgs("q1", e4EnumSteps(e4Connect, e4Step{Kind: "pub", QoS: 1, Topic: "t/a", ID: 40001}), e4EnumDepth(3, 5), ab, "dialErr", "refuse")...)
	ws = append(ws, e4EnumCfgs("q2id,q1", e4EnumSteps(e4Connect, e4Step{Kind: "pub", QoS: 2, Topic: "t/a", ID: 40001}, e4Pub(1, "t/b")), e4EnumDepth(2, 3), ab)...)
	ws = append(ws, e4EnumCfgs("pre:q1,q0|q2", e4EnumSteps(e4Pub(1, "t/a"), e4Pub(0, "x"), e4Connect, e4Pub(2, "t/b")), e4EnumDepth(2, 3), map[string]e4Config{"A": e4CfgA, "direct": e4CfgDirect})...)
	e4EnumRun(t, "C12", "TestVerifC12_Retransmit", ws, e4OracleC12)
}

// TestVerifC03_CutEnum: order of first transmissions and of PUBLISH packets per connection, for short histories
// submitted before and after Connect.
func TestVerifC03_CutEnum(t *testing.T) {
	cf := map[string]e4Config{"A": e4CfgA, "lost": e4CfgLost, "always": e4CfgAlways}
	var ws []e4EnumWorkload
	ws = append(ws, e4EnumCfgs("q1,q2,q1", e4EnumSteps(e4Connect, e4Pub(1, "t/a"), e4Pub(2, "t/b"), e4Pub(1, "x")), e4EnumDepth(2, 3), cf, "dialErr", "refuse")...)
	ws = append(ws, e4EnumCfgs("pre:q1,q2|q0,q1", e4EnumSteps(e4Pub(1, "t/a"), e4Pub(2, "t/b"), e4Connect, e4Pub(0, "x"), e4Pub(1, "t/a")), e4EnumDepth(2, 3), cf)...)
	ws = append(ws, e4EnumCfgs("sub,q1,unsub,q2", e4EnumSteps(e4Connect, e4Step{Kind: "sub", QoS: 1}, e4Pub(1, "t/a"), e4Step{Kind: "unsub"}, e4Pub(2, "t/b")), e4EnumDepth(2, 2), cf)...)
	e4EnumRun(t, "C03", "TestVerifC03_Order", ws, e4OracleC03)
}

// TestVerifC01_CutEnum: nothing accepted is lost, for mixed short histories and every session configuration.
func TestVerifC01_CutEnum(t *testing.T) {
	cf := map[string]e4Config{"A": e4CfgA, "B": e4CfgB, "lost": e4CfgLost, "always": e4CfgAlways, "clean": e4CfgClean, "timeout": e4CfgTimeout}
	var ws []e4EnumWorkload
	ws = append(ws, e4EnumCfgs("pre:q1|sub,q2,unsub", e4EnumSteps(e4Pub(1, "t/a"), e4Connect, e4Step{Kind: "sub", QoS: 2, Subs: []c05Sub{{Filter: "a", QoS: 1}}}, e4Pub(2, "t/b"), e4Step{Kind: "unsub", Subs: []c05Sub{{Filter: "a"}}}), e4EnumDepth(2, 2), cf)...)
	ws = append(ws, e4EnumCfgs("q2,sub", e4EnumSteps(e4Connect, e4Pub(2, "t/a"), e4Step{Kind: "sub", QoS: 0}), e4EnumDepth(2, 3), cf, "dialErr", "refuse")...)
	ws = append(ws, e4EnumCfgs("pre:sub,unsub,q1|", e4EnumSteps(e4Step{Kind: "sub", QoS: 1}, e4Step{Kind: "unsub"}, e4Pub(1, "x"), e4Connect), e4EnumDepth(2, 3), cf, "dialErr", "refuse")...)
	e4EnumRun(t, "C01", "TestVerifC01_NoLoss", ws, e4OracleC01)
}

// TestVerifC08_CutEnum: Subscribe/Unsubscribe histories under every session configuration; the restore pass is cut
// at each of its packets as part of the tree.
func TestVerifC08_CutEnum(t *testing.T) {
	cf := map[string]e4Config{"A": e4CfgA, "lost": e4CfgLost, "always": e4CfgAlways, "clean": e4CfgClean}
	sub := func(q int, fs ...c05Sub) e4Step { return e4Step{Kind: "sub", QoS: q, Subs: fs} }
	unsub := func(fs ...c05Sub) e4Step { return e4Step{Kind: "unsub", Subs: fs} }
	var ws []e4EnumWorkload
	ws = append(ws, e4EnumCfgs("sub(a),unsub(a)", e4EnumSteps(e4Connect, sub(1, c05Sub{Filter: "a", QoS: 1}), unsub(c05Sub{Filter: "a"})), e4EnumDepth(3, 4), cf)...)
	ws = append(ws, e4EnumCfgs("sub(a,b),sub(a'),unsub(b),q1", e4EnumSteps(e4Connect, sub(0, c05Sub{Filter: "a", QoS: 0}, c05Sub{Filter: "b", QoS: 2}), sub(1, c05Sub{Filter: "a", QoS: 2}), unsub(c05Sub{Filter: "b"}), e4Pub(1, "t/a")), e4EnumDepth(2, 3), cf)...)
	ws = append(ws, e4EnumCfgs("pre:sub(a)|unsub(a),sub(c/#)", e4EnumSteps(sub(2, c05Sub{Filter: "a", QoS: 1}), e4Connect, unsub(c05Sub{Filter: "a"}), sub(0, c05Sub{Filter: "c/#", QoS: 1})), e4EnumDepth(2, 3), cf)...)
	e4EnumRun(t, "C08", "TestVerifC08_Subscriptions", ws, e4OracleC08)
}
