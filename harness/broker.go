//go:build verif

package mqtt

// E3 — broker model with a structural fault plan, and the dialer handing out clients
// connected to it through the in-memory transport (E2).

import (
	"context"
	"errors"
	"fmt"
	"sort"
	"strings"
	"sync"
	"sync/atomic"
	"time"
)

type e4Fault struct {
	Kind    string `json:"kind"`              // cut | cutType | refuse | silentConnack | dialErr | dropAck | goSilent | garbage
	Conn    int    `json:"conn,omitempty"`    // connection = dial attempt number (1-based)
	Pkt     int    `json:"pkt,omitempty"`     // cut/goSilent/garbage: j-th client packet on that connection (1-based, CONNECT is 1)
	Type    int    `json:"type,omitempty"`    // cutType: client packet type; dropAck: the acknowledgement type withheld
	Nth     int    `json:"nth,omitempty"`     // cutType/dropAck: n-th packet of that type on that connection (1-based)
	After   bool   `json:"after,omitempty"`   // cut*: false = request lost (Write fails), true = processed, acknowledgement lost
	Code    int    `json:"code,omitempty"`    // refuse: CONNACK return code 1..5; dialErr: flavour of the error
	DelayUs int    `json:"delayUs,omitempty"` // dialErr: the dial fails only after this long (a connect timeout, a slow resolver)
	fired   bool
}

func (f e4Fault) String() string {
	when := "before"
	if f.After {
		when = "after"
	}
	switch f.Kind {
	case "cut":
		return fmt.Sprintf("cut{c%d %s pkt %d}", f.Conn, when, f.Pkt)
	case "cutType":
		return fmt.Sprintf("cutType{c%d %s %s #%d}", f.Conn, when, refTypeNames[f.Type], f.Nth)
	case "refuse":
		return fmt.Sprintf("refuse{c%d code %d}", f.Conn, f.Code)
	case "dropAck":
		return fmt.Sprintf("dropAck{c%d %s #%d}", f.Conn, refTypeNames[f.Type], f.Nth)
	case "hostileSuback":
		return fmt.Sprintf("hostileSuback{c%d #%d code %#x}", f.Conn, f.Nth, f.Code)
	}
	return fmt.Sprintf("%s{c%d pkt %d}", f.Kind, f.Conn, f.Pkt)
}

type vDelivery struct {
	Tag  string
	Seq  int64
	Conn int
	ID   int
	QoS  int
}

type vbConn struct {
	id        int
	b         *vbroker
	mc        *memConn
	fr        refFramer
	npkt      int
	typeCount map[int]int
	ackCount  map[int]int
	connected bool
	silent    bool
	dead      bool // cut or closed by the broker
	frameErr  error
	cli       *BaseClient
	connect   *refPacket

	stMu   sync.Mutex
	states []vStateEv
}

type vbroker struct {
	mu  sync.Mutex
	log *vLog

	sessionKept  bool
	methodB      bool
	plan         []*e4Fault
	noFaults     bool
	grantMax     int           // 0: grant what was requested; n: grant at most QoS n-1
	pingDelay    time.Duration // PINGRESP is sent this much later (a slow but healthy broker)
	repeatPubrec bool          // on session resumption the PUBRECs of unfinished QoS2 exchanges are sent again

	sessionExists bool
	subs          map[string]int
	q2            map[int]*refPacket // method A: remembered ids (nil message); method B: stored messages
	q2tags        map[int]string     // id -> tag of the QoS2 message last seen with that id
	conns         map[int]*vbConn
	deliveries    []vDelivery
	acked         map[string]int64 // request tag -> seq of an acknowledgement that was made readable
	subPackets    []vEvent         // every processed SUBSCRIBE
	firedFaults   []string
	protoErrs     []string
	inject        map[int][]refPacket // packets to send right after CONNACK of connection c
	onSilent      func(*vbConn)       // called (on a goroutine of its own) when a connection goes silent
	syncN         int
}

func newVBroker(log *vLog, sessionKept, methodB bool, plan []e4Fault) *vbroker {
	b := &vbroker{log: log, sessionKept: sessionKept, methodB: methodB, subs: map[string]int{}, q2: map[int]*refPacket{},
		conns: map[int]*vbConn{}, acked: map[string]int64{}, inject: map[int][]refPacket{}, q2tags: map[int]string{}}
	for i := range plan {
		f := plan[i]
		b.plan = append(b.plan, &f)
	}
	return b
}

// vTagOf identifies the application request a client packet belongs to.
func vTagOf(pk refPacket) string {
	switch pk.Type {
	case rtPublish:
		s := string(pk.Payload)
		if i := strings.IndexByte(s, '|'); i > 0 && s[0] == 'm' {
			return s[:i]
		}
	case rtSubscribe, rtUnsubscribe:
		for _, f := range pk.Filters {
			if strings.HasPrefix(f, "u/") {
				return f
			}
		}
	}
	return ""
}

func (b *vbroker) fault(match func(f *e4Fault) bool) *e4Fault {
	if b.noFaults {
		return nil
	}
	for _, f := range b.plan {
		if !f.fired && match(f) {
			f.fired = true
			b.firedFaults = append(b.firedFaults, f.String())
			return f
		}
	}
	return nil
}

func (c *vbConn) clientClosed(mc *memConn) {}

// clientWroteOnClosed records packets the client passed to Transport.Write after the link was gone.
func (c *vbConn) clientWroteOnClosed(mc *memConn, p []byte) {
	for len(p) > 0 {
		pk, n, err := refDecodeOne(p)
		if err != nil {
			c.b.log.add(c.id, "W-LOST-RAW", nil, "undecodable bytes written on a closed transport")
			return
		}
		c.b.log.add(c.id, "W-LOST", &pk, "written on a closed transport")
		p = p[n:]
	}
}

// clientWrote processes the client's packets synchronously (inside Transport.Write).
func (c *vbConn) clientWrote(mc *memConn, p []byte) error {
	b := c.b
	b.mu.Lock()
	defer b.mu.Unlock()
	if c.dead {
		c.clientWroteOnClosed(mc, p)
		return errMemBrokenPipe
	}
	pks, _, ferr := c.fr.Feed(p)
	for i := range pks {
		pk := pks[i]
		c.npkt++
		c.typeCount[pk.Type]++
		j, nth := c.npkt, c.typeCount[pk.Type]
		if f := b.fault(func(f *e4Fault) bool {
			return f.Conn == c.id && !f.After && ((f.Kind == "cut" && f.Pkt == j) || (f.Kind == "cutType" && f.Type == pk.Type && f.Nth == nth))
		}); f != nil {
			// request lost: the packet never reaches the broker, the write fails, the link is gone
			b.log.add(c.id, "W-LOST", &pk, f.String())
			c.kill()
			return errMemBrokenPipe
		}
		lose := b.fault(func(f *e4Fault) bool {
			return f.Conn == c.id && f.After && ((f.Kind == "cut" && f.Pkt == j) || (f.Kind == "cutType" && f.Type == pk.Type && f.Nth == nth))
		})
		if f := b.fault(func(f *e4Fault) bool { return f.Conn == c.id && f.Kind == "stall" && f.Pkt == j }); f != nil {
			// the peer stops answering and stops reading: this packet is still taken by the transport but never
			// answered, every later Write blocks until the transport is closed
			c.silent = true
			atomic.StoreInt32(&mc.blockWrites, 1)
			b.log.add(c.id, "STALL", nil, "")
		}
		b.log.add(c.id, "W", &pk, "")
		c.process(pk, lose != nil)
		if lose != nil {
			c.kill()
			return nil // the write itself succeeded; the answer is lost with the link
		}
		if f := b.fault(func(f *e4Fault) bool {
			return f.Conn == c.id && ((f.Kind == "goSilent" && f.Pkt == j) || (f.Kind == "goSilentType" && f.Type == pk.Type && f.Nth == nth))
		}); f != nil {
			c.silent = true
			b.log.add(c.id, "SILENT", nil, "")
			if b.onSilent != nil {
				go b.onSilent(c)
			}
		}
		if f := b.fault(func(f *e4Fault) bool { return f.Conn == c.id && f.Kind == "closeAfter" && f.Pkt == j }); f != nil {
			// the packet was answered normally, then the broker closes the link
			c.kill()
			return nil
		}
		if f := b.fault(func(f *e4Fault) bool { return f.Conn == c.id && f.Kind == "garbage" && f.Pkt == j }); f != nil {
			b.log.add(c.id, "B-GARBAGE", nil, "")
			mc.peerSend([]byte{0xF0, 0x00})
		}
		if c.dead {
			return nil
		}
	}
	if ferr != nil && c.frameErr == nil {
		c.frameErr = ferr
		b.protoErrs = append(b.protoErrs, fmt.Sprintf("c%d: ill-formed packet from the client: %v", c.id, ferr))
		b.log.add(c.id, "FRAME-ERROR", nil, ferr.Error())
		c.kill()
	}
	return nil
}

func (c *vbConn) kill() {
	if !c.dead {
		c.dead = true
		c.b.log.add(c.id, "CUT", nil, "")
		c.mc.peerClose(false)
	}
}

// send makes a broker packet readable unless it is to be lost.
func (c *vbConn) send(pk refPacket, lost bool, tag string) {
	if lost {
		c.b.log.add(c.id, "B-LOST", &pk, tag)
		return
	}
	if c.silent {
		c.b.log.add(c.id, "B-WITHHELD", &pk, tag)
		return
	}
	seq := c.b.log.add(c.id, "B", &pk, tag)
	if c.mc.peerSend(refEncode(pk)) && tag != "" {
		if _, ok := c.b.acked[tag]; !ok {
			c.b.acked[tag] = seq
		}
	}
}

func (c *vbConn) deliver(pk refPacket) {
	seq := c.b.log.add(c.id, "DELIVER", &pk, vTagOf(pk))
	c.b.deliveries = append(c.b.deliveries, vDelivery{Tag: vTagOf(pk), Seq: seq, Conn: c.id, ID: pk.ID, QoS: pk.QoS})
}

func (c *vbConn) process(pk refPacket, lose bool) {
	b := c.b
	if !c.connected && pk.Type != rtConnect {
		b.protoErrs = append(b.protoErrs, fmt.Sprintf("c%d: first packet is %s, not CONNECT", c.id, refTypeNames[pk.Type]))
	}
	// acknowledgements can additionally be dropped silently (link stays up): C18
	drop := func(ackType int) bool {
		c.ackCount[ackType]++
		n := c.ackCount[ackType]
		return b.fault(func(f *e4Fault) bool { return f.Kind == "dropAck" && f.Conn == c.id && f.Type == ackType && f.Nth == n }) != nil
	}
	ack := func(p refPacket, tag string) {
		if drop(p.Type) {
			b.log.add(c.id, "B-DROPPED", &p, tag)
			return
		}
		if f := b.fault(func(f *e4Fault) bool {
			return f.Kind == "lateAck" && f.Conn == c.id && f.Type == p.Type && f.Nth == c.ackCount[p.Type]
		}); f != nil && !lose {
			// the acknowledgement is sent, but late (a slow broker): after DelayUs, if the link is still there
			b.log.add(c.id, "B-LATE", &p, tag)
			d := time.Duration(f.DelayUs) * time.Microsecond
			go func() {
				time.Sleep(d)
				b.mu.Lock()
				if !c.dead {
					c.send(p, false, tag)
				}
				b.mu.Unlock()
			}()
			return
		}
		c.send(p, lose, tag)
	}
	switch pk.Type {
	case rtConnect:
		if c.connected {
			b.protoErrs = append(b.protoErrs, fmt.Sprintf("c%d: second CONNECT on one connection", c.id))
		}
		c.connected = true
		cp := pk
		c.connect = &cp
		if f := b.fault(func(f *e4Fault) bool { return f.Kind == "refuse" && f.Conn == c.id }); f != nil {
			c.send(refPacket{Type: rtConnAck, Code: f.Code}, lose, "")
			c.kill() // 3.2.2.3: the server closes the network connection after a non-zero return code
			return
		}
		if f := b.fault(func(f *e4Fault) bool { return f.Kind == "silentConnack" && f.Conn == c.id }); f != nil {
			b.log.add(c.id, "B-WITHHELD", &refPacket{Type: rtConnAck}, "")
			return
		}
		if f := b.fault(func(f *e4Fault) bool { return f.Kind == "loseSession" && f.Conn == c.id }); f != nil {
			// the broker lost this client's session (restart): session present = 0 once, kept again afterwards
			b.sessionExists = false
			b.log.add(c.id, "SESSION-LOST", nil, "")
		}
		sp := b.sessionKept && !pk.CleanSession && b.sessionExists
		if !sp {
			b.subs = map[string]int{}
			b.q2 = map[int]*refPacket{}
		}
		b.sessionExists = !pk.CleanSession
		c.send(refPacket{Type: rtConnAck, SessionPresent: sp}, lose, "")
		if !lose && sp && b.repeatPubrec {
			// a broker that repeats, right behind the CONNACK, the PUBREC of every QoS2 exchange it is still waiting
			// for the PUBREL of (nothing forbids it; to the client these are acknowledgements nobody waits for)
			var ids []int
			for id := range b.q2 {
				ids = append(ids, id)
			}
			sort.Ints(ids)
			for _, id := range ids {
				c.send(refPacket{Type: rtPubRec, ID: id}, false, "")
			}
		}
		if !lose {
			for _, inj := range b.inject[c.id] {
				c.send(inj, false, "")
			}
		}
	case rtPublish:
		switch pk.QoS {
		case 0:
			c.deliver(pk)
		case 1:
			c.deliver(pk)
			ack(refPacket{Type: rtPubAck, ID: pk.ID}, vTagOf(pk))
		case 2:
			if _, known := b.q2[pk.ID]; !known {
				if b.methodB {
					cp := pk
					b.q2[pk.ID] = &cp
				} else {
					c.deliver(pk)
					b.q2[pk.ID] = nil
				}
			}
			b.q2tags[pk.ID] = vTagOf(pk)
			ack(refPacket{Type: rtPubRec, ID: pk.ID}, "")
		}
	case rtPubRel:
		if st, known := b.q2[pk.ID]; known {
			if st != nil {
				c.deliver(*st)
			}
			delete(b.q2, pk.ID)
		}
		ack(refPacket{Type: rtPubComp, ID: pk.ID}, b.q2tags[pk.ID])
	case rtSubscribe:
		for i, f := range pk.Filters {
			b.subs[f] = pk.QoSs[i]
		}
		b.subPackets = append(b.subPackets, vEvent{Seq: b.log.lastSeq(), Conn: c.id, Kind: "SUBSCRIBE", Pkt: &pk})
		codes := append([]int{}, pk.QoSs...)
		if b.grantMax > 0 {
			// a broker that grants less than requested: at most QoS grantMax-1
			for i := range codes {
				if codes[i] > b.grantMax-1 {
					codes[i] = b.grantMax - 1
				}
			}
		}
		nthSub := c.typeCount[rtSubscribe]
		if f := b.fault(func(f *e4Fault) bool { return f.Kind == "hostileSuback" && f.Conn == c.id && f.Nth == nthSub }); f != nil {
			// a broker answering with failure / reserved return codes (well-formed packet, hostile content)
			for i := range codes {
				codes[i] = f.Code
			}
		}
		ack(refPacket{Type: rtSubAck, ID: pk.ID, Codes: codes}, vTagOf(pk))
	case rtUnsubscribe:
		for _, f := range pk.Filters {
			delete(b.subs, f)
		}
		ack(refPacket{Type: rtUnsubAck, ID: pk.ID}, vTagOf(pk))
	case rtPingReq:
		if b.pingDelay > 0 && !lose {
			d := b.pingDelay
			go func() {
				time.Sleep(d)
				b.mu.Lock()
				if !c.dead {
					c.send(refPacket{Type: rtPingResp}, false, "")
				}
				b.mu.Unlock()
			}()
		} else {
			ack(refPacket{Type: rtPingResp}, "")
		}
	case rtPubAck, rtPubRec, rtPubComp:
		// client's answers to broker-originated messages
	case rtDisconnect:
		b.log.add(c.id, "DISCONNECT", nil, "")
		c.dead = true
		c.mc.peerClose(false)
	}
}

// ---------------------------------------------------------------------------
// dialer

type vDialEv struct {
	Attempt    int
	TCall      time.Time
	TRet       time.Time
	SeqCall    int64
	Err        error
	OpenAtCall []int // connections handed out earlier whose transport was not closed at call time
}

type vdialer struct {
	maxPayload  int  // MaxPayloadLen of every client handed out
	ignoreCtx   bool // the held dial does not end when its context does
	stallWrites bool // every transport handed out blocks in Write from the start (a peer that accepts the connection and reads nothing)
	lockNext    bool // the next client handed out has its mu read-locked by the harness
	lockedCli   *BaseClient
	flavour     func(conn int) int // transport flavour per connection (see memConn.flavour)
	stateCalls  func(*BaseClient)  // what the application does inside its ConnState callback
	b           *vbroker
	mu          sync.Mutex

	attempts int
	dials    []vDialEv
	gate     chan struct{} // non-nil: dialling blocks until closed (or ctx done)
	holdFrom int           // > 0: attempts with a number >= holdFrom block on holdGate
	holdGate chan struct{}
	conns    []*vbConn
	tEnd     map[int]time.Time // first close of each transport (attempt -> time)
	onState  func(conn int, s ConnState, err error)
	maxRead  int
	unsafe   bool // transports in non-thread-safe mode (C10)
}

var errVDial = errors.New("verif: injected dial failure")

func (d *vdialer) hold() {
	d.mu.Lock()
	if d.gate == nil {
		d.gate = make(chan struct{})
	}
	d.mu.Unlock()
}

func (d *vdialer) release() {
	d.mu.Lock()
	if d.holdFrom > 0 {
		d.holdFrom = 0
		close(d.holdGate)
	}
	if d.gate != nil {
		close(d.gate)
		d.gate = nil
	}
	d.mu.Unlock()
}

func (d *vdialer) DialContext(ctx context.Context) (*BaseClient, error) {
	d.mu.Lock()
	d.attempts++
	k := d.attempts
	ev := vDialEv{Attempt: k, TCall: time.Now()}
	for _, c := range d.conns {
		lc, pc := c.mc.isClosed()
		if !lc && !pc {
			ev.OpenAtCall = append(ev.OpenAtCall, c.id)
		}
	}
	gate := d.gate
	if gate == nil && d.holdFrom > 0 && k >= d.holdFrom {
		gate = d.holdGate
	}
	// logged before the attempt counter becomes visible to anybody waiting for "attempt k is being dialled"
	ev.SeqCall = d.b.log.add(k, "DIAL", nil, "")
	d.mu.Unlock()
	finish := func(err error) {
		ev.TRet, ev.Err = time.Now(), err
		d.mu.Lock()
		d.dials = append(d.dials, ev)
		d.mu.Unlock()
	}
	if gate != nil && d.ignoreCtx {
		<-gate // a dialler that does not honour its context (NoContextDialer, a TLS / WebSocket handshake)
	} else if gate != nil {
		select {
		case <-gate:
		case <-ctx.Done():
			d.b.log.add(k, "DIAL-ERR", nil, "context done while dialling")
			finish(ctx.Err())
			return nil, ctx.Err()
		}
	}
	if err := ctx.Err(); err != nil {
		d.b.log.add(k, "DIAL-ERR", nil, "context done")
		finish(err)
		return nil, err
	}
	d.b.mu.Lock()
	f := d.b.fault(func(f *e4Fault) bool { return f.Kind == "dialErr" && f.Conn == k })
	d.b.mu.Unlock()
	if f != nil {
		if f.DelayUs > 0 {
			select {
			case <-time.After(time.Duration(f.DelayUs) * time.Microsecond):
			case <-ctx.Done():
			}
		}
		err := errVDial
		switch f.Code {
		case 1:
			err = fmt.Errorf("verif: injected dial failure: attempt timed out: %w", context.DeadlineExceeded)
		case 2:
			err = fmt.Errorf("verif: injected dial failure: attempt abandoned: %w", context.Canceled)
		}
		d.b.log.add(k, "DIAL-ERR", nil, "injected: "+err.Error())
		finish(err)
		return nil, err
	}
	c := &vbConn{id: k, b: d.b, typeCount: map[int]int{}, ackCount: map[int]int{}}
	c.mc = newMemConn(k, d.b.log, c)
	c.mc.maxRead = d.maxRead
	if d.flavour != nil {
		c.mc.flavour = d.flavour(k)
	}
	if d.stallWrites {
		atomic.StoreInt32(&c.mc.blockWrites, 1)
	}
	if d.unsafe {
		c.mc.unsafeMode, c.mc.yieldEvery = true, 2
	}
	cli := &BaseClient{Transport: c.mc.asTransport(), MaxPayloadLen: d.maxPayload}
	cli.ConnState = func(s ConnState, err error) {
		note := s.String()
		if err != nil {
			note += " err=" + err.Error()
		}
		seq := d.b.log.add(k, "STATE", nil, note)
		c.stMu.Lock()
		c.states = append(c.states, vStateEv{seq, s, err})
		c.stMu.Unlock()
		if d.onState != nil {
			d.onState(k, s, err)
		}
		if d.stateCalls != nil {
			d.stateCalls(cli)
		}
	}
	c.cli = cli
	d.mu.Lock()
	if d.lockNext {
		// the runner wants whoever touches this client's lock next to be held up (see step handleStalled)
		d.lockNext = false
		cli.mu.RLock()
		d.lockedCli = cli
	}
	d.mu.Unlock()
	d.b.mu.Lock()
	d.b.conns[k] = c
	d.b.mu.Unlock()
	d.mu.Lock()
	d.conns = append(d.conns, c)
	d.mu.Unlock()
	d.b.log.add(k, "DIAL-OK", nil, "")
	finish(nil)
	return cli, nil
}

func (d *vdialer) dialCount() int {
	d.mu.Lock()
	defer d.mu.Unlock()
	return d.attempts
}

func (d *vdialer) connsSnapshot() []*vbConn {
	d.mu.Lock()
	defer d.mu.Unlock()
	return append([]*vbConn{}, d.conns...)
}

func (d *vdialer) dialsSnapshot() []vDialEv {
	d.mu.Lock()
	defer d.mu.Unlock()
	return append([]vDialEv{}, d.dials...)
}

// currentConn returns the newest connection that is still up, or nil.
func (d *vdialer) currentConn() *vbConn {
	d.mu.Lock()
	defer d.mu.Unlock()
	for i := len(d.conns) - 1; i >= 0; i-- {
		c := d.conns[i]
		lc, pc := c.mc.isClosed()
		if !lc && !pc {
			return c
		}
	}
	return nil
}
