//go:build verif

package mqtt

// C01, C02, C03, C12 — request histories x fault plans against the reconnecting client.

import (
	"fmt"
	"testing"

	"pgregory.net/rapid"
)

func e4Labels(r *e4Result) []string {
	var labels []string
	kinds := map[string]bool{}
	for _, f := range r.Fired {
		k := f
		if i := indexByte(f, '{'); i > 0 {
			k = f[:i]
		}
		kinds[k] = true
	}
	for k := range kinds {
		labels = append(labels, "fault:"+k)
	}
	labels = append(labels, fmt.Sprintf("faults-fired:%d", minInt(len(r.Fired), 4)))
	pre, out := false, false
	for _, q := range r.Reqs {
		if q.PreConn {
			pre = true
		}
		if q.InOutage {
			out = true
		}
	}
	if pre {
		labels = append(labels, "submitted:before-connect")
	}
	if out {
		labels = append(labels, "submitted:during-outage")
	}
	if r.Stats.TotalRetries > 0 {
		labels = append(labels, "retried")
	}
	if !r.Quiesced && !r.Stuck {
		labels = append(labels, "inconclusive")
	}
	return labels
}

func indexByte(s string, b byte) int {
	for i := 0; i < len(s); i++ {
		if s[i] == b {
			return i
		}
	}
	return -1
}

func minInt(a, b int) int {
	if a < b {
		return a
	}
	return b
}

// e4Check runs the case and applies one property's oracle.
func e4Check(tb rapid.TB, prop string, c e4Case, oracle func(*e4Result) string, nontrivial func(*e4Result) (bool, []string)) {
	r := e4Run(c)
	msg := oracle(r)
	if vEnv("VERIF_DUMP") != "" { // development aid: print the timeline of every executed case
		for _, l := range r.trace(0) {
			fmt.Println("   ", l)
		}
	}
	nt, extra := nontrivial(r)
	vCount(prop, nt, vJSON(c), append(e4Labels(r), extra...), func() interface{} {
		return map[string]interface{}{"case": c, "fired": r.Fired, "trace_tail": r.trace(12)}
	})
	if !r.Quiesced && !r.Stuck && !r.Disconnected {
		vInconclusive(prop, "case did not reach quiescence within its budget while still making progress")
	}
	if msg != "" {
		tr := map[string]interface{}{"trace": r.trace(400)}
		if r.Stuck {
			tr["goroutines"] = r.Dump
		}
		vFailf(tb, tr, "%s", msg)
	}
}

func e4GenCase(rt *rapid.T, o e4GenOpts) e4Case {
	c := e4Case{Cfg: e4GenConfig(rt)}
	c.Steps = e4GenSteps(rt, o)
	c.Faults = e4GenFaults(rt, o)
	if rapid.IntRange(0, 5).Draw(rt, "resubTemplate") == 0 {
		// template "re-subscription interrupted while requests are pending": an established subscription,
		// a re-subscribing configuration, and a fault on the SUBSCRIBE of the 2nd / 3rd connection
		c.Cfg.AlwaysResub = true
		pre := []e4Step{{Kind: "connect"}, {Kind: "sub", QoS: rapid.IntRange(0, 2).Draw(rt, "tq"), Idx: 900}, {Kind: "settle"}}
		var rest []e4Step
		for _, st := range c.Steps {
			if st.Kind != "connect" {
				rest = append(rest, st)
			}
		}
		c.Steps = append(pre, rest...)
		// submission indexes must follow step order: renumber
		n := 0
		for i := range c.Steps {
			switch c.Steps[i].Kind {
			case "pub", "sub", "unsub":
				n++
				c.Steps[i].Idx = n
			case "atHook":
				n++
				sub := *c.Steps[i].Sub
				sub.Idx = n
				c.Steps[i].Sub = &sub
			}
		}
		c.Faults = append(c.Faults, e4Fault{Kind: "cutType", Conn: rapid.IntRange(2, 3).Draw(rt, "tconn"), Type: rtSubscribe, Nth: rapid.IntRange(1, 2).Draw(rt, "tnth"), After: rapid.Bool().Draw(rt, "tafter")})
	}
	if e4NeedsConnTimeout(c.Faults) {
		c.Cfg.ConnTimeoutMs = 15
	}
	return c
}

var e4OptsC01 = e4GenOpts{MaxSteps: 14, QoSWeights: []int{1, 3, 3}, SubWeight: 4, MaxFaults: 6, AllowRefuse: true, Outages: true, PreConnect: true}

func TestVerifC01_NoLoss(t *testing.T) {
	vRun(t, "C01", vOpts{CurFile: true, ReplayReps: 25}, func(rt *rapid.T) e4Case { return e4GenCase(rt, e4OptsC01) },
		func(tb rapid.TB, c e4Case) {
			e4Check(tb, "C01", c, e4OracleC01, func(r *e4Result) (bool, []string) {
				pending, _ := e4PendingAtFaults(r)
				pre := false
				for _, q := range r.Reqs {
					if (q.PreConn || q.InOutage) && !(q.Kind == "pub" && q.QoS == 0) {
						pre = true
					}
				}
				return pending >= 1 || pre, nil
			})
		})
}

var e4OptsC02 = e4GenOpts{MaxSteps: 8, QoSWeights: []int{1, 1, 8}, SubWeight: 3, MaxFaults: 5, Outages: true, PreConnect: false,
	CutTypes: []int{rtPublish, rtPublish, rtPubRel, rtPubRel, rtPubRel, rtConnect, rtSubscribe}, MaxConn: 4}

func TestVerifC02_ExactlyOnce(t *testing.T) {
	vRun(t, "C02", vOpts{CurFile: true, ReplayReps: 25}, func(rt *rapid.T) e4Case {
		c := e4GenCase(rt, e4OptsC02)
		c.Cfg.CleanSession, c.Cfg.SessionKept = false, true
		return c
	}, func(tb rapid.TB, c e4Case) {
		e4Check(tb, "C02", c, e4OracleC02, func(r *e4Result) (bool, []string) {
			labels, hit := e4C02Positions(r)
			if c.Cfg.MethodB {
				labels = append(labels, "c02:methodB")
			} else {
				labels = append(labels, "c02:methodA")
			}
			return hit, labels
		})
	})
}

// TestVerifC02_Timeouts: the same exactly-once oracle when connections end because the client gives up on them: a
// ResponseTimeout of 5..20 ms and silently dropped PUBREC / PUBCOMP / PUBACK / SUBACK (the link stays up, the client
// closes it), alone or together with cuts - also for messages that are still queued behind the one that timed out.
func TestVerifC02_Timeouts(t *testing.T) {
	vRun(t, "C02", vOpts{CurFile: true, ReplayReps: 10}, func(rt *rapid.T) e4Case {
		o := e4OptsC02
		o.MaxFaults = 2
		c := e4GenCase(rt, o)
		c.Cfg.CleanSession, c.Cfg.SessionKept = false, true
		c.Cfg.RespTimeoutMs = rapid.SampledFrom([]int{5, 10, 20}).Draw(rt, "respTimeoutMs2")
		c.Cfg.OnErrorSleepUs = 0
		n := rapid.IntRange(1, 3).Draw(rt, "nDrops")
		for i := 0; i < n; i++ {
			c.Faults = append(c.Faults, e4Fault{Kind: "dropAck", Conn: rapid.IntRange(1, i+2).Draw(rt, "dconn"),
				Type: rapid.SampledFrom([]int{rtPubRec, rtPubRec, rtPubComp, rtPubComp, rtPubAck, rtSubAck}).Draw(rt, "dack"), Nth: rapid.IntRange(1, 3).Draw(rt, "dnth")})
		}
		if rapid.IntRange(0, 2).Draw(rt, "late") == 0 {
			// an acknowledgement that is only late: it arrives after the response timeout, while the application's slow
			// OnError still runs and the connection is therefore still open
			c.Cfg.OnErrorSleepUs = rapid.SampledFrom([]int{3000, 6000}).Draw(rt, "onErrorSleepUs2")
			c.Faults = append(c.Faults, e4Fault{Kind: "lateAck", Conn: rapid.IntRange(1, 2).Draw(rt, "lconn"),
				Type: rapid.SampledFrom([]int{rtPubRec, rtPubRec, rtPubComp}).Draw(rt, "lack"), Nth: rapid.IntRange(1, 2).Draw(rt, "lnth"),
				DelayUs: c.Cfg.RespTimeoutMs*1000 + rapid.SampledFrom([]int{300, 1000, 2000}).Draw(rt, "lateBy")})
		}
		return c
	}, func(tb rapid.TB, c e4Case) {
		e4Check(tb, "C02", c, e4OracleC02, func(r *e4Result) (bool, []string) {
			labels, hit := e4C02Positions(r)
			dropped := false
			for _, e := range r.Log {
				if e.Kind == "B-LATE" {
					labels = append(labels, "c02:ack-late")
					dropped = true
					break
				}
			}
			for _, e := range r.Log {
				if e.Kind == "B-DROPPED" {
					dropped = true
				}
			}
			if dropped {
				labels = append(labels, "c02:ack-dropped")
			}
			return hit || dropped, labels
		})
	})
}

var e4OptsC03 = e4GenOpts{MaxSteps: 14, QoSWeights: []int{2, 3, 3}, SubWeight: 3, MaxFaults: 6, AllowRefuse: true, Outages: true, PreConnect: true}

func TestVerifC03_Order(t *testing.T) {
	vRun(t, "C03", vOpts{CurFile: true, ReplayReps: 25}, func(rt *rapid.T) e4Case {
		c := e4GenCase(rt, e4OptsC03)
		c.Cfg.DirectQoS0 = false // the property speaks of the default (queued) publishing mode
		if rapid.IntRange(0, 14).Draw(rt, "burst") == 0 {
			// a burst: a few requests are carried out, then 64..130 more are submitted while the link is down (far more
			// than any fixed-size queue holds), then the broker is reachable again
			steps := []e4Step{{Kind: "connect"}}
			nPre := rapid.IntRange(1, 20).Draw(rt, "burstPre")
			for i := 0; i < nPre; i++ {
				steps = append(steps, e4Step{Kind: "pub", QoS: rapid.IntRange(0, 2).Draw(rt, "bq"), Topic: "t/a"})
			}
			steps = append(steps, e4Step{Kind: "settle"}, e4Step{Kind: "holdDial"}, e4Step{Kind: "cutNow"})
			nb := rapid.IntRange(64, 130).Draw(rt, "burstN")
			for i := 0; i < nb; i++ {
				steps = append(steps, e4Step{Kind: "pub", QoS: rapid.SampledFrom([]int{1, 1, 1, 2}).Draw(rt, "bq2"), Topic: "t/b"})
			}
			steps = append(steps, e4Step{Kind: "releaseDial"})
			n := 0
			for i := range steps {
				if steps[i].Kind == "pub" {
					n++
					steps[i].Idx = n
				}
			}
			c.Steps = steps
			if len(c.Faults) > 2 {
				c.Faults = c.Faults[:2]
			}
		}
		return c
	},
		func(tb rapid.TB, c e4Case) {
			e4Check(tb, "C03", c, e4OracleC03, func(r *e4Result) (bool, []string) {
				pending, _ := e4PendingAtFaults(r)
				return pending >= 2, nil
			})
		})
}

var e4OptsC12 = e4GenOpts{MaxSteps: 8, QoSWeights: []int{1, 4, 5}, SubWeight: 1, MaxFaults: 6, Outages: true, PreConnect: true,
	CutTypes: []int{rtPublish, rtPublish, rtPubRel, rtPubRel, rtConnect, rtSubscribe}, MaxConn: 5}

func TestVerifC12_Retransmit(t *testing.T) {
	vRun(t, "C12", vOpts{CurFile: true, ReplayReps: 25}, func(rt *rapid.T) e4Case {
		c := e4GenCase(rt, e4OptsC12)
		// some messages carry a caller-chosen identifier
		for i := range c.Steps {
			if c.Steps[i].Kind == "pub" && c.Steps[i].QoS > 0 && rapid.IntRange(0, 3).Draw(rt, "fixID") == 0 {
				c.Steps[i].ID = 40000 + c.Steps[i].Idx
			}
		}
		return c
	}, func(tb rapid.TB, c e4Case) {
		e4Check(tb, "C12", c, e4OracleC12, func(r *e4Result) (bool, []string) {
			n := e4MaxTransmissions(r)
			return n >= 2, []string{fmt.Sprintf("c12:max-transmissions=%d", minInt(n, 4))}
		})
	})
}

// TestVerifC12_ManyRetransmissions: one message retransmitted 256..320 times in a row (the broker accepts every connection
// and loses the PUBLISH or its acknowledgement every time): every single retransmission must be identical and carry DUP=1.
func TestVerifC12_ManyRetransmissions(t *testing.T) {
	vRun(t, "C12", vOpts{CurFile: true, ReplayReps: 1}, func(rt *rapid.T) e4Case {
		c := e4Case{Cfg: e4Config{SessionKept: rapid.Bool().Draw(rt, "kept"), MethodB: rapid.Bool().Draw(rt, "methodB"), BaseUs: 50, MaxUs: 100}}
		q := rapid.IntRange(1, 2).Draw(rt, "qos")
		c.Steps = []e4Step{{Kind: "connect"}, {Kind: "pub", QoS: q, Topic: "t/a", Retain: rapid.Bool().Draw(rt, "retain"), Idx: 1}}
		if rapid.Bool().Draw(rt, "fixID") {
			c.Steps[1].ID = 40001
		}
		n := rapid.IntRange(257, 320).Draw(rt, "cuts")
		after := rapid.Bool().Draw(rt, "after")
		for k := 1; k <= n; k++ {
			c.Faults = append(c.Faults, e4Fault{Kind: "cutType", Conn: k, Type: rtPublish, Nth: 1, After: after && q == 1})
		}
		return c
	}, func(tb rapid.TB, c e4Case) {
		e4Check(tb, "C12", c, e4OracleC12, func(r *e4Result) (bool, []string) {
			n := e4MaxTransmissions(r)
			return n >= 257, []string{"c12:many-retransmissions"}
		})
	})
}

// TestVerifC05_ViaRetry: packets emitted through the retrying client (first, deferred and
// re-transmitted requests) are well-formed and carry exactly the submitted fields.
func TestVerifC05_ViaRetry(t *testing.T) {
	vRun(t, "C05", vOpts{CurFile: true, ReplayReps: 10}, func(rt *rapid.T) e4Case {
		c := e4GenCase(rt, e4OptsC12)
		for i := range c.Steps {
			if c.Steps[i].Kind == "pub" && c.Steps[i].QoS > 0 && rapid.IntRange(0, 3).Draw(rt, "fixID") == 0 {
				c.Steps[i].ID = 40000 + c.Steps[i].Idx
			}
		}
		// CONNECT must carry the requested keep-alive whatever the ping interval of the reconnecting client is
		// (intervals of seconds: no ping is ever due within a case)
		if rapid.IntRange(0, 2).Draw(rt, "maxPayload") == 0 {
			// a payload limit on the clients, and some messages over it - also ones submitted before any client exists
			c.Cfg.MaxPayload = 16
			for i := range c.Steps {
				if c.Steps[i].Kind == "pub" && rapid.IntRange(0, 2).Draw(rt, "over") == 0 {
					c.Steps[i].Extra = rapid.IntRange(12, 40).Draw(rt, "overBy")
				}
			}
		}
		c.Cfg.KeepAliveS = rapid.SampledFrom([]int{0, 0, 60, 65535}).Draw(rt, "keepAliveS")
		c.Cfg.PingMs = rapid.SampledFrom([]int{0, 0, 2000, 90000}).Draw(rt, "pingMs")
		return c
	}, func(tb rapid.TB, c e4Case) {
		e4Check(tb, "C05", c, e4OracleC05, func(r *e4Result) (bool, []string) {
			return r.Stats.TotalRetries > 0, []string{"via-retry-client"}
		})
	})
}

// TestVerifC01_ReconnectRace: submissions timed around the moment the client redials after an
// un-gated cut, so that SetClient / Connect of the new connection race with the task wake-up.
func TestVerifC01_ReconnectRace(t *testing.T) {
	vRun(t, "C01", vOpts{CurFile: true, ReplayReps: 200}, func(rt *rapid.T) e4Case {
		c := e4Case{Cfg: e4GenConfig(rt)}
		c.Cfg.BaseUs = rapid.SampledFrom([]int{100, 200, 500}).Draw(rt, "baseUs2")
		c.Steps = []e4Step{{Kind: "connect"}, {Kind: "settle"}}
		n := rapid.IntRange(1, 5).Draw(rt, "rounds")
		idx := 0
		for i := 0; i < n; i++ {
			c.Steps = append(c.Steps, e4Step{Kind: "cutNow"}, e4Step{Kind: "sleepBase", Extra: rapid.IntRange(-150, 400).Draw(rt, "delta")})
			m := rapid.IntRange(1, 3).Draw(rt, "burst")
			for j := 0; j < m; j++ {
				idx++
				k := rapid.SampledFrom([]string{"pub", "pub", "pub", "sub", "unsub"}).Draw(rt, "kind")
				c.Steps = append(c.Steps, e4Step{Kind: k, QoS: rapid.IntRange(0, 2).Draw(rt, "qos"), Topic: "t/a", Idx: idx})
			}
			if rapid.Bool().Draw(rt, "settle") {
				c.Steps = append(c.Steps, e4Step{Kind: "settle"})
			}
		}
		return c
	}, func(tb rapid.TB, c e4Case) {
		e4Check(tb, "C01", c, func(r *e4Result) string {
			if msg := e4OracleC01(r); msg != "" {
				return msg
			}
			for _, pe := range r.ProtoErrs {
				return "protocol error while reconnecting: " + pe
			}
			return ""
		}, func(r *e4Result) (bool, []string) {
			pending, _ := e4PendingAtFaults(r)
			return pending >= 1 || len(r.Conns) >= 2, []string{"reconnect-race"}
		})
	})
}

// TestVerifC15_ViaRetry: through the retrying client too, a caller-chosen identifier is used unchanged on
// every emission of the message (first, deferred behind the retry queue, retransmitted), chosen ids are
// non-zero, and two different messages never share an identifier while both are unacknowledged.
func TestVerifC15_ViaRetry(t *testing.T) {
	vRun(t, "C15", vOpts{CurFile: true, ReplayReps: 10}, func(rt *rapid.T) e4Case {
		c := e4GenCase(rt, e4OptsC12)
		for i := range c.Steps {
			if c.Steps[i].Kind == "pub" && c.Steps[i].QoS > 0 && rapid.IntRange(0, 1).Draw(rt, "fixID") == 0 {
				c.Steps[i].ID = 40000 + c.Steps[i].Idx
			}
		}
		return c
	}, func(tb rapid.TB, c e4Case) {
		fixed := 0
		e4Check(tb, "C15", c, func(r *e4Result) string {
			req := map[string]e4Req{}
			for _, q := range r.Reqs {
				req[q.Tag] = q
			}
			for _, e := range r.Log {
				if !e4Emitted(e) {
					continue
				}
				switch e.Pkt.Type {
				case rtPublish:
					if e.Pkt.QoS == 0 {
						continue
					}
					if e.Pkt.ID == 0 {
						return fmt.Sprintf("PUBLISH #%d on c%d carries packet identifier 0", e.Seq, e.Conn)
					}
					if q, ok := req[vTagOf(*e.Pkt)]; ok && q.Step.ID != 0 {
						fixed++
						if e.Pkt.ID != q.Step.ID {
							return fmt.Sprintf("message idx %d was submitted with packet identifier %d but PUBLISH #%d on c%d carries %d", q.Idx, q.Step.ID, e.Seq, e.Conn, e.Pkt.ID)
						}
					}
				case rtSubscribe, rtUnsubscribe:
					if e.Pkt.ID == 0 {
						return fmt.Sprintf("%s #%d on c%d carries packet identifier 0", refTypeNames[e.Pkt.Type], e.Seq, e.Conn)
					}
				}
			}
			return ""
		}, func(r *e4Result) (bool, []string) {
			return fixed > 0 && r.Stats.TotalRetries > 0, []string{"via-retry-client"}
		})
	})
}
