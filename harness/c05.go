//go:build verif

package mqtt

// C05 — emitted packets are well-formed MQTT 3.1.1 carrying exactly the requested fields.
// Oracle: the independent strict decoder/encoder of refcodec.go.

import (
	"bytes"
	"context"
	"errors"
	"fmt"
	"io"
	"runtime"
	"runtime/debug"
	"sync"
	"sync/atomic"
	"testing"
	"time"

	"pgregory.net/rapid"
)

// ---------------------------------------------------------------------------
// length codec

func c05CheckLen(n int) string {
	got := remainingLength(n)
	want := refEncodeLen(n)
	if !bytes.Equal(got, want) {
		return fmt.Sprintf("remainingLength(%d) = % x, reference % x", n, got, want)
	}
	return ""
}

type c05LenCase struct {
	N int `json:"n"`
}

// TestVerifC05_LenCodecAll compares the length encoder with the reference for every
// body length 0..268435455 (split over all cores).
func TestVerifC05_LenCodecAll(t *testing.T) {
	if vReplayOrCorpusOnly() {
		t.Skip("replay mode")
	}
	workers := runtime.GOMAXPROCS(0)
	const total = refMaxRemaining + 1
	var wg sync.WaitGroup
	var bad int64 = -1
	var done int64
	chunk := (total + workers - 1) / workers
	for w := 0; w < workers; w++ {
		lo, hi := w*chunk, (w+1)*chunk
		if hi > total {
			hi = total
		}
		wg.Add(1)
		go func() {
			defer wg.Done()
			var want [4]byte
			for n := lo; n < hi; n++ {
				// inline reference (2.2.3) to keep the loop allocation free on the oracle side
				x, k := n, 0
				for {
					d := byte(x % 128)
					x /= 128
					if x > 0 {
						d |= 128
					}
					want[k] = d
					k++
					if x == 0 {
						break
					}
				}
				got := remainingLength(n)
				if len(got) != k || !bytes.Equal(got, want[:k]) {
					atomic.CompareAndSwapInt64(&bad, -1, int64(n))
					return
				}
			}
			atomic.AddInt64(&done, int64(hi-lo))
		}()
	}
	wg.Wait()
	vExtraSet("C05", "lencodec_exhaustive_lengths", int(done))
	vExtraSet("C05", "exhaustive_done", done == total)
	if bad >= 0 {
		vSetCurrent("C05", "TestVerifC05_Len", c05LenCase{int(bad)}, false)
		msg := c05CheckLen(int(bad))
		vWriteFailure(msg, nil)
		t.Fatalf("ORACLE: %s", msg)
	}
}

type c05ZeroReader struct {
	head []byte
	left int
	reqs int64
}

func (z *c05ZeroReader) Read(p []byte) (int, error) {
	if int64(len(p)) > z.reqs {
		z.reqs = int64(len(p))
	}
	if len(z.head) > 0 {
		n := copy(p, z.head)
		z.head = z.head[n:]
		return n, nil
	}
	if z.left == 0 {
		return 0, io.EOF
	}
	n := len(p)
	if n > z.left {
		n = z.left
	}
	for i := 0; i < n; i++ {
		p[i] = 0
	}
	z.left -= n
	return n, nil
}

func c05CheckReadLen(n int) string {
	hdr := append([]byte{0x30}, refEncodeLen(n)...)
	z := &c05ZeroReader{head: hdr, left: n + 3}
	typ, flag, body, err := readPacket(z)
	if err != nil {
		return fmt.Sprintf("readPacket(header for %d body bytes) failed: %v", n, err)
	}
	if typ != packetPublish || flag != 0 || len(body) != n || z.left != 3 {
		return fmt.Sprintf("readPacket(header for %d body bytes) returned type %x flag %x body %d bytes, %d bytes left unread (want 3)", n, int(typ), flag, len(body), z.left)
	}
	return ""
}

var c05Boundaries = []int{0, 127, 128, 16383, 16384, 2097151, 2097152}

// TestVerifC05_Len: single lengths, both directions (encoder vs reference, readPacket on
// reference-encoded headers), boundary-biased. Also the replay target of the exhaustive loop.
func TestVerifC05_Len(t *testing.T) {
	vRun(t, "C05", vOpts{}, func(rt *rapid.T) c05LenCase {
		switch rapid.IntRange(0, 3).Draw(rt, "kind") {
		case 0:
			b := rapid.SampledFrom(c05Boundaries).Draw(rt, "b")
			n := b + rapid.IntRange(-2048, 2048).Draw(rt, "d")
			if n < 0 {
				n = -n
			}
			return c05LenCase{n}
		case 1:
			return c05LenCase{rapid.IntRange(0, 4<<20).Draw(rt, "n")}
		case 2:
			return c05LenCase{rapid.IntRange(0, 70000).Draw(rt, "n")}
		}
		if vThorough() && rapid.IntRange(0, 400).Draw(rt, "huge") == 0 {
			return c05LenCase{refMaxRemaining - rapid.IntRange(0, 3).Draw(rt, "d")}
		}
		return c05LenCase{rapid.IntRange(0, 20<<20).Draw(rt, "n")}
	}, func(tb rapid.TB, c c05LenCase) {
		vCount("C05", c.N >= 128, []byte(fmt.Sprintf("len:%d", c.N)), []string{fmt.Sprintf("len:%d-byte-field", len(refEncodeLen(c.N)))}, func() interface{} { return c })
		if msg := c05CheckLen(c.N); msg != "" {
			vFailf(tb, nil, "%s", msg)
		}
		if msg := c05CheckReadLen(c.N); msg != "" {
			vFailf(tb, nil, "%s", msg)
		}
	})
}

// ---------------------------------------------------------------------------
// outbound / inbound packets through the API

type c05Will struct {
	Topic      string `json:"topic"`
	PayloadLen int    `json:"payloadLen"`
	QoS        int    `json:"qos"`
	Retain     bool   `json:"retain"`
}

type c05Sub struct {
	Filter string `json:"filter"`
	QoS    int    `json:"qos"`
}

type c05Op struct {
	Kind       string   `json:"kind"` // publish subscribe unsubscribe ping inbound badqos toolong
	Topic      string   `json:"topic,omitempty"`
	PayloadLen int      `json:"payloadLen,omitempty"`
	Seed       int      `json:"seed,omitempty"`
	QoS        int      `json:"qos,omitempty"`
	Retain     bool     `json:"retain,omitempty"`
	Dup        bool     `json:"dup,omitempty"`
	ID         int      `json:"id,omitempty"`
	Subs       []c05Sub `json:"subs,omitempty"`
	ViaRetry   bool     `json:"viaRetry,omitempty"`
}

type c05Case struct {
	ClientID   string   `json:"clientID"`
	Clean      bool     `json:"clean"`
	KeepAlive  int      `json:"keepAlive"`
	Will       *c05Will `json:"will,omitempty"`
	User       string   `json:"user,omitempty"`
	Pass       string   `json:"pass,omitempty"`
	Level      int      `json:"level,omitempty"`
	MaxPayload int      `json:"maxPayload,omitempty"`
	Disconnect bool     `json:"disconnect,omitempty"`
	Ops        []c05Op  `json:"ops"`
}

func c05Payload(n, seed int) []byte {
	b := make([]byte, n)
	for i := range b {
		b[i] = byte(seed + i*7 + i>>8)
	}
	return b
}

var c05Strs = []string{"", "a", "user", "日本語", "p@ss wörd", "x/y", "0123456789abcdef", "é"}

func c05GenString(rt *rapid.T, label string) string {
	if rapid.IntRange(0, 5).Draw(rt, label+"Long") == 0 {
		n := rapid.SampledFrom([]int{100, 127, 128, 255, 256, 1000, 16383, 65535}).Draw(rt, label+"Len")
		b := make([]byte, n)
		for i := range b {
			b[i] = 'a' + byte(i%26)
		}
		return string(b)
	}
	return rapid.SampledFrom(c05Strs).Draw(rt, label)
}

var c05ValidFilters = []string{"a", "a/b", "+", "#", "a/+", "a/#", "+/+/#", "/", "a//b", "日本/+", "$SYS/#", "sport/tennis/player1"}

// c05PayloadLenFor picks a payload length, biased so that the remaining length of the
// PUBLISH lands within +-2 of a length-field boundary.
func c05PayloadLenFor(rt *rapid.T, header int, allowHuge bool) int {
	k := rapid.IntRange(0, 9).Draw(rt, "plKind")
	switch {
	case k <= 3:
		return rapid.IntRange(0, 64).Draw(rt, "plSmall")
	case k <= 6:
		bs := []int{127, 128, 16383, 16384}
		if allowHuge {
			bs = append(bs, 2097151, 2097152)
		}
		l := rapid.SampledFrom(bs).Draw(rt, "plB") + rapid.IntRange(-2, 2).Draw(rt, "plD") - header
		if l < 0 {
			l = 0
		}
		return l
	case k <= 8:
		return rapid.IntRange(0, 70000).Draw(rt, "plMid")
	}
	if allowHuge {
		return rapid.IntRange(0, 3<<20).Draw(rt, "plBig")
	}
	return rapid.IntRange(0, 200000).Draw(rt, "plBig")
}

func c05Gen(rt *rapid.T) c05Case {
	c := c05Case{
		ClientID:   c05GenString(rt, "cid"),
		Clean:      rapid.Bool().Draw(rt, "clean"),
		KeepAlive:  rapid.SampledFrom([]int{0, 1, 60, 255, 256, 65535}).Draw(rt, "ka"),
		Level:      rapid.SampledFrom([]int{0, 0, 4, 3}).Draw(rt, "level"),
		Disconnect: rapid.Bool().Draw(rt, "disc"),
	}
	if rapid.Bool().Draw(rt, "hasWill") {
		c.Will = &c05Will{Topic: refGenTopic(rt, "wt"), QoS: rapid.IntRange(0, 2).Draw(rt, "wq"), Retain: rapid.Bool().Draw(rt, "wr"),
			PayloadLen: rapid.SampledFrom([]int{0, 1, 10, 127, 128, 1000, 65535}).Draw(rt, "wpl")}
	}
	if rapid.Bool().Draw(rt, "hasUser") {
		c.User = c05GenString(rt, "user")
		if c.User == "" {
			c.User = "u"
		}
		if rapid.Bool().Draw(rt, "hasPass") {
			c.Pass = c05GenString(rt, "pass")
		}
	}
	if rapid.IntRange(0, 3).Draw(rt, "hasMax") == 0 {
		c.MaxPayload = rapid.SampledFrom([]int{1, 2, 16, 100, 1000, 70000}).Draw(rt, "max")
	}
	huge := vThorough() || rapid.IntRange(0, 19).Draw(rt, "hugeOK") == 0
	c.Ops = rapid.SliceOfN(rapid.Custom(func(rt *rapid.T) c05Op {
		k := rapid.IntRange(0, 11).Draw(rt, "op")
		switch {
		case k <= 4:
			op := c05Op{Kind: "publish", Topic: refGenTopic(rt, "t"), QoS: rapid.IntRange(0, 2).Draw(rt, "q"), Retain: rapid.Bool().Draw(rt, "r"), Seed: rapid.IntRange(0, 255).Draw(rt, "seed"),
				Dup: rapid.IntRange(0, 3).Draw(rt, "staleDup") == 0}
			if rapid.IntRange(0, 7).Draw(rt, "longTopic") == 0 {
				op.Topic = c05GenString(rt, "lt") + "x"
				if len(op.Topic) > 65535 {
					op.Topic = op.Topic[:65535]
				}
			}
			if rapid.IntRange(0, 2).Draw(rt, "fixID") == 0 {
				op.ID = rapid.SampledFrom([]int{1, 2, 255, 256, 4660, 65535}).Draw(rt, "id")
			}
			hdr := 2 + len(op.Topic)
			if op.QoS > 0 {
				hdr += 2
			}
			op.PayloadLen = c05PayloadLenFor(rt, hdr, huge)
			if c.MaxPayload > 0 && op.PayloadLen >= c.MaxPayload {
				op.PayloadLen = c.MaxPayload - 1
			}
			return op
		case k == 5:
			op := c05Op{Kind: "subscribe"}
			n := rapid.IntRange(1, 20).Draw(rt, "nsub")
			for i := 0; i < n; i++ {
				op.Subs = append(op.Subs, c05Sub{rapid.SampledFrom(c05ValidFilters).Draw(rt, "f"), rapid.IntRange(0, 2).Draw(rt, "sq")})
			}
			return op
		case k == 6:
			op := c05Op{Kind: "unsubscribe"}
			n := rapid.IntRange(1, 20).Draw(rt, "nunsub")
			for i := 0; i < n; i++ {
				op.Subs = append(op.Subs, c05Sub{Filter: rapid.SampledFrom(c05ValidFilters).Draw(rt, "f")})
			}
			return op
		case k == 7:
			return c05Op{Kind: "ping"}
		case k <= 9:
			op := c05Op{Kind: "inbound", Topic: refGenTopic(rt, "t"), QoS: rapid.IntRange(0, 2).Draw(rt, "q"), Retain: rapid.Bool().Draw(rt, "r"), Seed: rapid.IntRange(0, 255).Draw(rt, "seed")}
			if op.QoS > 0 {
				op.ID = rapid.IntRange(1, 59999).Draw(rt, "id")
				op.Dup = rapid.Bool().Draw(rt, "dup")
			}
			hdr := 2 + len(op.Topic)
			if op.QoS > 0 {
				hdr += 2
			}
			op.PayloadLen = c05PayloadLenFor(rt, hdr, huge)
			return op
		case k == 10 && rapid.IntRange(0, 3).Draw(rt, "oversize") == 0:
			// a string the protocol cannot carry (>= 65536 bytes): must be refused (error or documented panic)
			// before anything is written, or else be written correctly - never as a malformed packet
			return c05Op{Kind: "oversize", Topic: rapid.SampledFrom([]string{"topic", "filter", "unfilter"}).Draw(rt, "field"), PayloadLen: rapid.SampledFrom([]int{65536, 65537, 70000, 131072}).Draw(rt, "olen")}
		case k == 10:
			return c05Op{Kind: "badqos", Topic: refGenTopic(rt, "t"), QoS: rapid.IntRange(3, 255).Draw(rt, "q"), PayloadLen: rapid.IntRange(0, 10).Draw(rt, "pl"), ViaRetry: rapid.Bool().Draw(rt, "viaRetry")}
		default:
			return c05Op{Kind: "toolong", Topic: refGenTopic(rt, "t"), QoS: rapid.IntRange(0, 2).Draw(rt, "q"), PayloadLen: rapid.IntRange(1, 300).Draw(rt, "over"), ViaRetry: rapid.Bool().Draw(rt, "viaRetry")}
		}
	}), 0, 12).Draw(rt, "ops")
	return c
}

func c05Run(tb rapid.TB, c c05Case) {
	r := newBaseRig()
	defer r.shutdown()
	r.peer.auto = bpeerBrokerAuto
	r.cli.MaxPayloadLen = c.MaxPayload

	var handed []refPacket
	var hmu sync.Mutex
	r.cli.Handle(HandlerFunc(func(m *Message) {
		if m.Topic == vSyncTopic {
			return
		}
		hmu.Lock()
		handed = append(handed, refPacket{Type: rtPublish, Topic: m.Topic, Payload: append([]byte{}, m.Payload...), QoS: int(m.QoS), Retain: m.Retain, Dup: m.Dup, ID: int(m.ID)})
		hmu.Unlock()
	}))

	fail := func(format string, args ...interface{}) {
		vFailf(tb, r.log.strings(40), format, args...)
	}
	last := func() refPacket {
		pk := r.peer.received()
		return pk[len(pk)-1]
	}
	nrecv := func() int { return len(r.peer.received()) }
	checkFrame := func(what string) {
		r.peer.mu.Lock()
		err, pend := r.peer.frameErr, r.peer.fr.Pending()
		r.peer.mu.Unlock()
		if err != nil {
			fail("%s: the bytes written are not a well-formed MQTT 3.1.1 packet: %v", what, err)
		}
		if pend != 0 {
			fail("%s: %d bytes written beyond the last complete packet (wrong remaining length?)", what, pend)
		}
	}

	ctx, cancel := context.WithTimeout(context.Background(), 60*time.Second)
	defer cancel()

	// ---- CONNECT
	var opts []ConnectOption
	opts = append(opts, WithCleanSession(c.Clean), WithKeepAlive(uint16(c.KeepAlive)))
	var willPayload []byte
	if c.Will != nil {
		willPayload = c05Payload(c.Will.PayloadLen, 3)
		opts = append(opts, WithWill(&Message{Topic: c.Will.Topic, Payload: willPayload, QoS: QoS(c.Will.QoS), Retain: c.Will.Retain}))
	}
	if c.User != "" {
		opts = append(opts, WithUserNamePassword(c.User, c.Pass))
	}
	wantLevel := 4
	if c.Level != 0 {
		opts = append(opts, WithProtocolLevel(ProtocolLevel(c.Level)))
		wantLevel = c.Level
	}
	if _, err := r.cli.Connect(ctx, c.ClientID, opts...); err != nil {
		checkFrame("Connect")
		fail("Connect failed: %v", err)
	}
	checkFrame("Connect")
	nontrivial := false
	var labels []string
	{
		got := r.peer.received()
		if len(got) != 1 || got[0].Type != rtConnect {
			fail("Connect wrote %v, want exactly one CONNECT", got)
		}
		g := got[0]
		want := refPacket{Type: rtConnect, ProtoName: "MQTT", ProtoLevel: wantLevel, CleanSession: c.Clean, KeepAlive: c.KeepAlive, ClientID: c.ClientID}
		optional := 0
		if c.Will != nil {
			want.HasWill, want.WillTopic, want.WillPayload, want.WillQoS, want.WillRetain = true, c.Will.Topic, willPayload, c.Will.QoS, c.Will.Retain
			if len(willPayload) == 0 {
				want.WillPayload = []byte{}
			}
			optional++
		}
		if c.User != "" {
			want.HasUser, want.User = true, c.User
			optional++
			if c.Pass != "" {
				want.HasPass, want.Pass = true, c.Pass
				optional++
			}
		}
		if g.WillPayload == nil && want.HasWill {
			g.WillPayload = []byte{}
		}
		if !refPacketsEqual(g, want) {
			fail("CONNECT fields differ from the request:\n got  %s\n want %s", vJSON(g), vJSON(want))
		}
		if optional >= 2 {
			nontrivial = true
			labels = append(labels, "connect:>=2-optional-fields")
		}
	}

	// ---- operations
	for i, op := range c.Ops {
		before := nrecv()
		what := fmt.Sprintf("op %d (%s)", i, op.Kind)
		switch op.Kind {
		case "publish":
			payload := c05Payload(op.PayloadLen, op.Seed)
			// (Dup as left over in a forwarded / re-used Message: a first transmission still goes out with DUP=0)
			msg := &Message{Topic: op.Topic, Payload: payload, QoS: QoS(op.QoS), Retain: op.Retain, ID: uint16(op.ID), Dup: op.Dup}
			if err := r.cli.Publish(ctx, msg); err != nil {
				checkFrame(what)
				fail("%s: Publish failed: %v", what, err)
			}
			checkFrame(what)
			got := r.peer.received()[before:]
			wantN := map[int]int{0: 1, 1: 1, 2: 2}[op.QoS]
			if len(got) != wantN || got[0].Type != rtPublish {
				fail("%s: wrote %v, want PUBLISH%s", what, got, map[int]string{0: "", 1: "", 2: " + PUBREL"}[op.QoS])
			}
			g := got[0]
			if g.Topic != op.Topic || !bytes.Equal(g.Payload, payload) || g.QoS != op.QoS || g.Retain != op.Retain || g.Dup {
				fail("%s: PUBLISH on the wire {topic %q, %d payload bytes, q%d, retain %v, dup %v} differs from the request {topic %q, %d bytes, q%d, retain %v, dup false}",
					what, g.Topic, len(g.Payload), g.QoS, g.Retain, g.Dup, op.Topic, len(payload), op.QoS, op.Retain)
			}
			if op.QoS > 0 && op.ID != 0 && g.ID != op.ID {
				fail("%s: caller's packet id %d became %d on the wire", what, op.ID, g.ID)
			}
			if op.QoS == 2 && (got[1].Type != rtPubRel || got[1].ID != g.ID) {
				fail("%s: second packet %v, want PUBREL id %d", what, got[1], g.ID)
			}
			if len(refEncodeLen(2+len(op.Topic)+len(payload)+2*btoi(op.QoS > 0))) >= 2 {
				nontrivial = true
				labels = append(labels, fmt.Sprintf("publish:len-field-%d", len(refEncodeLen(2+len(op.Topic)+len(payload)))))
			}
			for _, ch := range op.Topic {
				if ch > 127 {
					nontrivial = true
					labels = append(labels, "publish:multibyte-topic")
					break
				}
			}
		case "subscribe":
			subs := make([]Subscription, len(op.Subs))
			for j, s := range op.Subs {
				subs[j] = Subscription{Topic: s.Filter, QoS: QoS(s.QoS)}
			}
			res, err := r.cli.Subscribe(ctx, subs...)
			checkFrame(what)
			if err != nil {
				fail("%s: Subscribe failed: %v", what, err)
			}
			got := r.peer.received()[before:]
			if len(got) != 1 || got[0].Type != rtSubscribe {
				fail("%s: wrote %v, want one SUBSCRIBE", what, got)
			}
			if len(got[0].Filters) != len(op.Subs) {
				fail("%s: SUBSCRIBE carries %d filters, requested %d", what, len(got[0].Filters), len(op.Subs))
			}
			for j, s := range op.Subs {
				if got[0].Filters[j] != s.Filter || got[0].QoSs[j] != s.QoS {
					fail("%s: filter %d on the wire (%q, q%d) differs from the request (%q, q%d)", what, j, got[0].Filters[j], got[0].QoSs[j], s.Filter, s.QoS)
				}
				if j < len(res) && (res[j].Topic != s.Filter || int(res[j].QoS) != s.QoS) {
					fail("%s: returned subscription %d = %v, granted was (%q, q%d)", what, j, res[j], s.Filter, s.QoS)
				}
			}
			if len(op.Subs) >= 2 {
				nontrivial = true
				labels = append(labels, "subscribe:>=2-filters")
			}
		case "unsubscribe":
			fs := make([]string, len(op.Subs))
			for j, s := range op.Subs {
				fs[j] = s.Filter
			}
			err := r.cli.Unsubscribe(ctx, fs...)
			checkFrame(what)
			if err != nil {
				fail("%s: Unsubscribe failed: %v", what, err)
			}
			got := r.peer.received()[before:]
			if len(got) != 1 || got[0].Type != rtUnsubscribe || len(got[0].Filters) != len(fs) {
				fail("%s: wrote %v, want one UNSUBSCRIBE with %d filters", what, got, len(fs))
			}
			for j := range fs {
				if got[0].Filters[j] != fs[j] {
					fail("%s: filter %d on the wire %q, requested %q", what, j, got[0].Filters[j], fs[j])
				}
			}
			if len(fs) >= 2 {
				nontrivial = true
				labels = append(labels, "unsubscribe:>=2-filters")
			}
		case "ping":
			err := r.cli.Ping(ctx)
			checkFrame(what)
			if err != nil {
				fail("%s: Ping failed: %v", what, err)
			}
			if got := r.peer.received()[before:]; len(got) != 1 || got[0].Type != rtPingReq {
				fail("%s: wrote %v, want one PINGREQ", what, got)
			}
		case "inbound":
			payload := c05Payload(op.PayloadLen, op.Seed)
			pk := refPacket{Type: rtPublish, Topic: op.Topic, Payload: payload, QoS: op.QoS, Retain: op.Retain, Dup: op.Dup, ID: op.ID}
			hmu.Lock()
			handed = nil
			hmu.Unlock()
			r.peer.send(pk)
			if op.QoS == 2 {
				r.peer.send(refPacket{Type: rtPubRel, ID: op.ID})
			}
			if !r.peer.sync(30 * time.Second) {
				fail("%s: client stopped processing after a well-formed inbound PUBLISH; Err()=%v", what, r.cli.Err())
			}
			checkFrame(what)
			hmu.Lock()
			h := append([]refPacket{}, handed...)
			hmu.Unlock()
			if len(h) != 1 {
				fail("%s: handler received %d messages for one inbound PUBLISH", what, len(h))
			}
			if h[0].Topic != pk.Topic || !bytes.Equal(h[0].Payload, pk.Payload) || h[0].QoS != pk.QoS || h[0].Retain != pk.Retain || h[0].Dup != pk.Dup || (pk.QoS > 0 && h[0].ID != pk.ID) {
				fail("%s: handler received %v, the broker encoded %v", what, h[0], pk)
			}
			if len(refEncodeLen(2+len(op.Topic)+len(payload))) >= 2 {
				nontrivial = true
				labels = append(labels, "inbound:len-field>=2")
			}
		case "oversize":
			bb := make([]byte, op.PayloadLen)
			for i := range bb {
				bb[i] = 'a' + byte(i%26)
			}
			big := string(bb)
			var err error
			var pan interface{}
			func() {
				defer func() { pan = recover() }()
				switch op.Topic {
				case "topic":
					err = r.cli.Publish(ctx, &Message{Topic: big, QoS: QoS1, Payload: []byte("x")})
				case "filter":
					_, err = r.cli.Subscribe(ctx, Subscription{Topic: "ok", QoS: QoS1}, Subscription{Topic: big, QoS: QoS1})
				default:
					err = r.cli.Unsubscribe(ctx, big)
				}
			}()
			r.peer.mu.Lock()
			ferr, pend := r.peer.frameErr, r.peer.fr.Pending()
			r.peer.mu.Unlock()
			if ferr != nil || pend != 0 {
				fail("%s: a %d-byte %s was written as a malformed packet (%v, %d stray bytes) instead of being refused; call returned err=%v panic=%v", what, op.PayloadLen, op.Topic, ferr, pend, err, pan)
			}
			if pan == nil && err == nil {
				// accepted: then the packet on the wire must carry exactly that string
				got := r.peer.received()[before:]
				ok := len(got) == 1 && ((op.Topic == "topic" && got[0].Topic == big) || (op.Topic != "topic" && len(got[0].Filters) > 0 && got[0].Filters[len(got[0].Filters)-1] == big))
				if !ok {
					fail("%s: a %d-byte %s was accepted but is not on the wire unchanged", what, op.PayloadLen, op.Topic)
				}
			}
			if pan != nil {
				// the documented refusal of this library is a panic; the muWrite / connect locks must not stay held
				labels = append(labels, "rejected:oversize-panic")
				if nrecv() != before {
					fail("%s: refused with a panic but bytes were written", what)
				}
			}
			labels = append(labels, "oversize:"+op.Topic)
		case "badqos", "toolong":
			n := op.PayloadLen
			wantErr := ErrInvalidQoS
			if op.Kind == "toolong" {
				if c.MaxPayload == 0 {
					continue
				}
				n = c.MaxPayload + op.PayloadLen
				wantErr = ErrPayloadLenExceeded
			} else if c.MaxPayload != 0 && n >= c.MaxPayload {
				n = 0
			}
			msg := &Message{Topic: op.Topic, Payload: c05Payload(n, 1), QoS: QoS(op.QoS)}
			var err error
			if op.ViaRetry {
				rc := &RetryClient{cli: r.cli} // a RetryClient with a client set (no task goroutine needed: must be rejected first)
				err = rc.Publish(ctx, msg)
			} else {
				err = r.cli.Publish(ctx, msg)
			}
			if err == nil || !errors.Is(err, wantErr) {
				fail("%s: Publish(q%d, %d payload bytes, max %d, viaRetry=%v) returned %v, want %v", what, op.QoS, n, c.MaxPayload, op.ViaRetry, err, wantErr)
			}
			if nrecv() != before || r.peer.fr.Pending() != 0 {
				fail("%s: a rejected message still caused bytes to be written (%v)", what, r.peer.received()[before:])
			}
			labels = append(labels, "rejected:"+op.Kind)
		}
	}
	if c.Disconnect {
		before := nrecv()
		if err := r.cli.Disconnect(ctx); err != nil {
			fail("Disconnect failed: %v", err)
		}
		checkFrame("Disconnect")
		if got := r.peer.received()[before:]; len(got) != 1 || got[0].Type != rtDisconnect {
			fail("Disconnect wrote %v, want one DISCONNECT", got)
		}
		_ = last
	}
	vCount("C05", nontrivial, vJSON(c), labels, func() interface{} { return c })
}

func btoi(b bool) int {
	if b {
		return 1
	}
	return 0
}

func TestVerifC05_Packets(t *testing.T) {
	vRun(t, "C05", vOpts{CurFile: true}, c05Gen, c05Run)
}

// ---------------------------------------------------------------------------
// bodies at and beyond the protocol maximum

type c05OverCase struct {
	Kind     string `json:"kind"`     // "func": the length encoder alone; "publish": a PUBLISH through the API
	N        int    `json:"n"`        // func: the length handed to the encoder
	Short    int    `json:"short"`    // publish: payload length = 268435455 - Short
	TopicLen int    `json:"topicLen"` // publish
	QoS      int    `json:"qos"`      // publish: 0 or 1
}

// c05Sniff is a transport that keeps the first bytes of the stream and counts the rest.
type c05Sniff struct {
	mu     sync.Mutex
	head   []byte
	total  int
	closed chan struct{}
	once   sync.Once
}

func (s *c05Sniff) Write(p []byte) (int, error) {
	s.mu.Lock()
	defer s.mu.Unlock()
	if len(s.head) < 8 {
		k := 8 - len(s.head)
		if k > len(p) {
			k = len(p)
		}
		s.head = append(s.head, p[:k]...)
	}
	s.total += len(p)
	return len(p), nil
}
func (s *c05Sniff) Read(p []byte) (int, error) { <-s.closed; return 0, io.EOF }
func (s *c05Sniff) Close() error               { s.once.Do(func() { close(s.closed) }); return nil }

// TestVerifC05_OverMax: a body the protocol cannot carry (more than 268435455 bytes) must be refused before anything
// is written - by an error or by the documented panic - and the largest bodies it can carry must go out with the
// minimal four-byte length.  The length encoder alone must never return an encoding for a larger number.
func TestVerifC05_OverMax(t *testing.T) {
	vRun(t, "C05", vOpts{CurFile: true}, func(rt *rapid.T) c05OverCase {
		if rapid.IntRange(0, 2).Draw(rt, "kind") > 0 {
			d := rapid.SampledFrom([]int{1, 2, 127, 128, 1 << 20, 1 << 28, 1<<31 - 1 - refMaxRemaining}).Draw(rt, "over")
			return c05OverCase{Kind: "func", N: refMaxRemaining + d}
		}
		return c05OverCase{Kind: "publish", Short: rapid.IntRange(0, 20).Draw(rt, "short"), TopicLen: rapid.IntRange(0, 12).Draw(rt, "topicLen"), QoS: rapid.IntRange(0, 1).Draw(rt, "qos")}
	}, func(tb rapid.TB, c c05OverCase) {
		if c.Kind == "func" {
			vCount("C05", true, vJSON(c), []string{"over-max:encoder"}, func() interface{} { return c })
			var out []byte
			panicked := func() (p bool) {
				defer func() {
					if recover() != nil {
						p = true
					}
				}()
				out = remainingLength(c.N)
				return false
			}()
			if !panicked {
				vFailf(tb, nil, "remainingLength(%d) returned % x for a length beyond the protocol maximum 268435455 (a well-formed length field has at most 4 bytes)", c.N, out)
			}
			return
		}
		payloadLen := refMaxRemaining - c.Short
		body := 2 + c.TopicLen + payloadLen
		if c.QoS > 0 {
			body += 2
		}
		label := "over-max:publish-fits"
		if body > refMaxRemaining {
			label = "over-max:publish-too-big"
		}
		vCount("C05", true, vJSON(c), []string{label}, func() interface{} { return c })
		topic := "0123456789ab"[:c.TopicLen]
		if c.TopicLen == 0 {
			topic = "" // (an empty topic name is not this check's business: only the length field is)
		}
		sn := &c05Sniff{closed: make(chan struct{})}
		cli := &BaseClient{Transport: sn}
		cli.sig = &signaller{} // a connected client, as far as Publish is concerned
		cli.connClosed = make(chan struct{})
		ctx, cancel := context.WithCancel(context.Background())
		cancel() // QoS1: do not wait for a PUBACK
		msg := &Message{Topic: topic, QoS: QoS(c.QoS), Payload: make([]byte, payloadLen)}
		var err error
		var pv interface{}
		func() {
			defer func() { pv = recover() }()
			err = cli.Publish(ctx, msg)
		}()
		msg.Payload = nil
		sn.Close()
		sn.mu.Lock()
		head, total := append([]byte{}, sn.head...), sn.total
		sn.mu.Unlock()
		defer debug.FreeOSMemory()
		if body > refMaxRemaining {
			if total != 0 {
				vFailf(tb, nil, "a PUBLISH whose body would be %d bytes (protocol maximum 268435455) was not refused: %d bytes were written, starting % x (Publish returned %v, panic %v)", body, total, head, err, pv)
			}
			if pv == nil && err == nil {
				vFailf(tb, nil, "Publish of a %d-byte body returned nil although nothing was written", body)
			}
			return
		}
		if pv != nil {
			vFailf(tb, nil, "Publish panicked for a legal body of %d bytes: %v", body, pv)
		}
		want := append([]byte{byte(0x30 | c.QoS<<1)}, refEncodeLen(body)...)
		if total != len(want)+body || !bytes.Equal(head[:len(want)], want) {
			vFailf(tb, nil, "PUBLISH with a legal body of %d bytes: %d bytes written starting % x, want %d bytes starting % x (Publish returned %v)", body, total, head, len(want)+body, want, err)
		}
	})
}
