//go:build verif

package mqtt

// E4 — history runner for the reconnecting / retrying client against the broker model.

import (
	"context"
	"errors"
	"fmt"
	"runtime"
	"runtime/debug"
	"sync"
	"sync/atomic"
	"time"

	"pgregory.net/rapid"
)

type e4Config struct {
	CleanSession  bool `json:"cleanSession,omitempty"`
	SessionKept   bool `json:"sessionKept,omitempty"`
	AlwaysResub   bool `json:"alwaysResub,omitempty"`
	MethodB       bool `json:"methodB,omitempty"`
	DirectQoS0    bool `json:"directQoS0,omitempty"`
	RespTimeoutMs int  `json:"respTimeoutMs,omitempty"`
	PingMs        int  `json:"pingMs,omitempty"`
	PingTimeoutMs int  `json:"pingTimeoutMs,omitempty"`
	ConnTimeoutMs int  `json:"connTimeoutMs,omitempty"`
	BaseUs        int  `json:"baseUs,omitempty"`
	MaxUs         int  `json:"maxUs,omitempty"`
	MaxRead       int  `json:"maxRead,omitempty"`
	// CancelConnectCtx: the context given to Connect is cancelled as soon as Connect returned
	// (ctx, cancel := WithTimeout(...); defer cancel(); cli.Connect(ctx) - the usual caller pattern)
	CancelConnectCtx bool `json:"cancelConnectCtx,omitempty"`
	// OnErrorSleepUs: the OnError callback is slow (an application logging synchronously)
	OnErrorSleepUs int `json:"onErrorSleepUs,omitempty"`
	// GrantMax: the broker grants min(requested, GrantMax) in SUBACK (0 = grants what was requested)
	GrantMax int `json:"grantMax,omitempty"`
	// PingDelayMs: the broker answers PINGREQ that much later
	PingDelayMs int `json:"pingDelayMs,omitempty"`
	// OnErrorCalls: the OnError callback reads the client's statistics and current BaseClient (an application logging them)
	OnErrorCalls bool `json:"onErrorCalls,omitempty"`
	// ReuseSubBuf: the application keeps one []Subscription buffer and re-uses it for its next Subscribe call once the client
	// has gone idle (every earlier request done): what it passed earlier is overwritten then
	ReuseSubBuf bool `json:"reuseSubBuf,omitempty"`
	// RespTimeoutLate: RetryClient.ResponseTimeout is assigned only after Connect returned (before any request is made)
	RespTimeoutLate bool `json:"respTimeoutLate,omitempty"`
	// RepeatPubrec: the broker repeats the PUBREC of unfinished QoS2 exchanges right behind the CONNACK of a resumed session
	RepeatPubrec bool `json:"repeatPubrec,omitempty"`
	// AppPingShortN > 0: right after Connect returned the application pings that many times itself, each with a 1 ms
	// deadline (with a slow broker these give up before the PINGRESP arrives: the answers come late)
	AppPingShortN int `json:"appPingShortN,omitempty"`
	// MaxPayload > 0: every BaseClient the dialler hands out has MaxPayloadLen set to it (C05 only: a message over the
	// limit accepted before the first connection exists is dropped later, which the no-loss oracles would report)
	MaxPayload int `json:"maxPayload,omitempty"`
	// ChatterUs > 0: from the first connection on the application publishes a QoS0 message every ChatterUs microseconds
	// (steady outbound traffic); after a peer went silent it goes on for at least 100 keep-alive periods, then stops
	ChatterUs int `json:"chatterUs,omitempty"`
	// CancelSubmitCtx: every Publish/Subscribe/Unsubscribe call gets a context of its own that is cancelled as soon as the
	// call returned (ctx, cancel := WithTimeout(...); defer cancel()), as request-scoped application code does
	CancelSubmitCtx bool `json:"cancelSubmitCtx,omitempty"`
	// Transport: how the transports report their own closure (memConn.flavour bits), rotated over the connections
	Transport int `json:"transport,omitempty"`
	// StateHandle: the application registers its handler from the ConnState callback when a connection becomes Active
	// (the usual on-connect pattern), under a new handler number 300+connection
	StateHandle bool `json:"stateHandle,omitempty"`
	// StateCalls: the application's ConnState callback looks at the client (Err, Done, Stats) from inside the callback
	StateCalls bool `json:"stateCalls,omitempty"`
	// AppPingOnSilence: as soon as a peer goes silent the application itself calls Ping without a deadline (a health probe)
	AppPingOnSilence bool `json:"appPingOnSilence,omitempty"`
	// KeepAliveS: the keep-alive value requested in CONNECT (WithKeepAlive), seconds
	KeepAliveS int `json:"keepAliveS,omitempty"`
}

type e4Step struct {
	Kind   string   `json:"kind"` // pub sub unsub connect settle holdDial releaseDial cutNow inject handle sleep yield disconnect
	QoS    int      `json:"qos,omitempty"`
	Retain bool     `json:"retain,omitempty"`
	Topic  string   `json:"topic,omitempty"`
	Extra  int      `json:"extra,omitempty"` // pub: extra payload bytes; sleep: microseconds; handle: handler number
	ID     int      `json:"id,omitempty"`    // pub: caller-chosen packet id (0 = let the client choose)
	Subs   []c05Sub `json:"subs,omitempty"`
	Idx    int      `json:"idx"`            // submission index (assigned by normalisation)
	Site   string   `json:"site,omitempty"` // atHook: the point of the reconnect loop at which Sub is submitted
	Sub    *e4Step  `json:"sub,omitempty"`
}

type e4Inject struct {
	Conn int  `json:"conn"`
	QoS  int  `json:"qos"`
	Dup  bool `json:"dup,omitempty"` // a re-delivery by the broker (QoS>0)
	// ReuseID (QoS>0, connection >= 2): the message carries the packet identifier that the broker used for the last
	// QoS1 message (the marker) of the previous connection - brokers re-use identifiers of completed exchanges
	ReuseID bool `json:"reuseID,omitempty"`
}

type e4Case struct {
	Cfg    e4Config   `json:"cfg"`
	Steps  []e4Step   `json:"steps"`
	Faults []e4Fault  `json:"faults"`
	Inject []e4Inject `json:"inject,omitempty"` // inbound messages placed right behind the CONNACK of a connection
}

type e4Req struct {
	Idx      int
	Kind     string
	QoS      int
	Tag      string
	Err      error
	Seq      int64 // log seq when the API call returned
	Step     e4Step
	PreConn  bool
	InOutage bool
	Oversize bool // payload over the clients' MaxPayloadLen: can never be carried out, whatever Publish returned
}

type e4ConnEnd struct {
	ID         int
	States     []vStateEv
	Closed     bool // transport closed by either side
	DoneClosed bool
	Connected  bool
	Err        error
}

type e4OnErr struct {
	Seq int64
	Err error
}

type e4Handled struct {
	Seq     int64
	Handler int
	Pkt     refPacket
}

type e4Result struct {
	Case          e4Case
	Log           []vEvent
	Reqs          []e4Req
	Quiesced      bool
	Stuck         bool
	Dump          string
	Stats         RetryStats
	Subs          map[string]int
	Dials         []vDialEv
	Conns         []*vbConn
	OnErrors      []e4OnErr
	Handled       []e4Handled
	Acked         map[string]int64
	Deliver       []vDelivery
	Fired         []string
	ProtoErrs     []string
	SubPkts       []vEvent
	ReaderStuck   string
	Samples       []c16Sample
	ConnEnd       []e4ConnEnd // per connection, as it was when the run ended (before teardown)
	ConnectErr    error
	ConnectReturn bool
	DisconnectErr error
	Disconnected  bool
	Panic         interface{}
	Hung          bool // abandoned by the watchdog: a client call never returned
}

func (r *e4Result) trace(max int) []string {
	ev := r.Log
	if max > 0 && len(ev) > max {
		ev = ev[len(ev)-max:]
	}
	out := make([]string, 0, len(ev)+4)
	for _, e := range ev {
		out = append(out, e.String())
	}
	out = append(out, fmt.Sprintf("stats=%+v fired=%v quiesced=%v stuck=%v", r.Stats, r.Fired, r.Quiesced, r.Stuck))
	return out
}

func e4Payload(idx, extra int) []byte {
	b := []byte(fmt.Sprintf("m%d|", idx))
	for i := 0; i < extra; i++ {
		b = append(b, byte('a'+i%26))
	}
	return b
}

// ---- observation hooks (reconnclient.go, build tag verif): per RetryClient dispatch

var vHookMu sync.Mutex
var vHookOwners = map[interface{}]func(site string){}

func init() {
	verifHook = func(site string, owner interface{}) {
		vHookMu.Lock()
		f := vHookOwners[owner]
		vHookMu.Unlock()
		if f != nil {
			f(site)
		}
	}
}

func vHookRegister(owner interface{}, f func(site string)) {
	vHookMu.Lock()
	vHookOwners[owner] = f
	vHookMu.Unlock()
}

func vHookUnregister(owner interface{}) {
	vHookMu.Lock()
	delete(vHookOwners, owner)
	vHookMu.Unlock()
}

type e4HookAction struct {
	site string
	run  func()
	done chan struct{}
}

type e4Env struct {
	// callbacks may still run after the case returned: they append here (under mu), the result gets a copy
	handled    []e4Handled
	onErrors   []e4OnErr
	pushed     *int64 // reconnect loop passed "tasks pushed" this many times
	barrierWhy string // why the idle barrier last said no (under mu; diagnostics only)
	hookMu     sync.Mutex
	pending    []*e4HookAction // actions waiting for the next passage of the loop through their site
	active     int64           // ConnState(Active) callbacks
	ctx        context.Context
	c          e4Case
	log        *vLog
	b          *vbroker
	d          *vdialer
	rc         *RetryClient
	cli        ReconnectClient
	res        *e4Result
	mu         sync.Mutex
	curH       int32
	connCh     chan struct{}
}

func (e *e4Env) handler(n int) Handler {
	return HandlerFunc(func(m *Message) {
		if m.Topic == vSyncTopic {
			return
		}
		if n >= 100 && n < 200 {
			// a one-shot handler: replaces itself from inside its own callback
			e.log.add(0, "HANDLE-START", nil, fmt.Sprintf("handler=%d", n+100))
			e.cli.Handle(e.handler(n + 100))
			e.log.add(0, "HANDLE", nil, fmt.Sprintf("handler=%d", n+100))
		}
		pk := refPacket{Type: rtPublish, Topic: m.Topic, Payload: append([]byte{}, m.Payload...), QoS: int(m.QoS), Retain: m.Retain, Dup: m.Dup, ID: int(m.ID)}
		seq := e.log.add(0, "H", &pk, fmt.Sprintf("handler=%d", n))
		e.mu.Lock()
		e.handled = append(e.handled, e4Handled{seq, n, pk})
		e.mu.Unlock()
	})
}

// activity is a counter that changes whenever anything at all happens in the system.
func (e *e4Env) activity() int64 {
	st := e.rc.Stats()
	return e.log.lastSeq() + int64(e.d.dialCount()) + int64(st.TotalTasks) + int64(st.TotalRetries) + int64(st.CountConnect)
}

// idleBarrier decides, race-free, whether the client is idle on a live connection:
// the reconnect loop has pushed its Resubscribe/Retry tasks for every successful connect
// (hook counter == number of Active callbacks), a sentinel task pushed afterwards has run
// (tasks are FIFO on one goroutine), nothing changed meanwhile and the goal still holds.
func (e *e4Env) idleBarrier(goal func() bool) bool {
	bc := e.d.currentConn()
	if bc == nil {
		e.setBarrierWhy("no open transport")
		return false
	}
	// the newest transport must itself be an established connection (a transport that was only dialled
	// so far says nothing: the task goroutine may still be attached to its dead predecessor)
	bc.stMu.Lock()
	isActive := false
	for _, s := range bc.states {
		if s.State == StateActive {
			isActive = true
		}
	}
	bc.stMu.Unlock()
	if !isActive {
		e.setBarrierWhy("newest open transport never became Active")
		return false
	}
	a0, p0 := atomic.LoadInt64(&e.active), atomic.LoadInt64(e.pushed)
	if a0 != p0 || a0 == 0 {
		e.setBarrierWhy(fmt.Sprintf("Active callbacks %d, tasks-pushed hook %d", a0, p0))
		return false
	}
	if !goal() {
		e.setBarrierWhy("goal not reached (queued work or an unacknowledged request)")
		return false
	}
	ch := make(chan struct{})
	if err := e.rc.pushTask(e.ctx, func(context.Context, *BaseClient) { close(ch) }); err != nil {
		e.setBarrierWhy("sentinel task refused: " + err.Error())
		return false
	}
	select {
	case <-ch:
	case <-time.After(2 * time.Second):
		e.setBarrierWhy("sentinel task not run within 2 s")
		return false
	}
	e.setBarrierWhy("state changed while the sentinel ran")
	if atomic.LoadInt64(&e.active) != a0 || atomic.LoadInt64(e.pushed) != p0 {
		return false
	}
	if cur := e.d.currentConn(); cur != bc {
		return false
	}
	return goal()
}

// setBarrierWhy remembers why the idle barrier last said no (diagnostics only: it is printed with a stuck verdict).
func (e *e4Env) setBarrierWhy(w string) {
	e.mu.Lock()
	e.barrierWhy = w
	e.mu.Unlock()
}

// settle waits until the client is idle: nothing queued and every accepted QoS>=1 /
// subscribe / unsubscribe request acknowledged. Returns (done, stuck).
func (e *e4Env) settle(maxWait time.Duration, needAcks bool) (bool, bool) {
	goal := func() bool {
		st := e.rc.Stats()
		if st.QueuedTasks != 0 || st.QueuedRetries != 0 {
			return false
		}
		if !needAcks {
			return true
		}
		e.b.mu.Lock()
		defer e.b.mu.Unlock()
		e.mu.Lock()
		defer e.mu.Unlock()
		for _, q := range e.res.Reqs {
			if q.Err != nil || (q.Kind == "pub" && q.QoS == 0) || q.Oversize {
				continue
			}
			if _, ok := e.b.acked[q.Tag]; !ok {
				return false
			}
		}
		return true
	}
	deadline := time.Now().Add(maxWait)
	lastAct, lastChange := e.activity(), time.Now()
	for i := 0; ; i++ {
		if e.idleBarrier(goal) {
			return true, false
		}
		if a := e.activity(); a != lastAct {
			lastAct, lastChange = a, time.Now()
		} else if time.Since(lastChange) > e4StuckAfter+e.quietAllowance() {
			// (with a keep-alive interval of whole seconds the client is legitimately quiet for that long between pings)
			return false, true
		}
		if time.Now().After(deadline) {
			return false, false
		}
		if i < 100 {
			runtime.Gosched()
		} else {
			time.Sleep(100 * time.Microsecond)
		}
	}
}

var e4StuckAfter = 3 * time.Second

// quietAllowance: cases that depend on a keep-alive interval of one or two whole seconds (interval taken from the CONNECT
// option) are legitimately quiet for that long between pings; the idle detector waits two intervals longer there.
func (e *e4Env) quietAllowance() time.Duration {
	if k := e.c.Cfg.KeepAliveS; k > 0 && k <= 2 && e.c.Cfg.PingMs == 0 {
		return 2 * time.Duration(k) * time.Second
	}
	return 0
}

// e4HangAfter: a case whose runner is blocked inside the client (every public call of the client is made from
// the runner's goroutine) while nothing at all happens anywhere - no packet, no dial, no callback - for this long
// is abandoned as stuck.  It is far above every wait the runner itself performs with a verdict of its own (3 s
// idle detector, 20 s marker wait, 20 s Disconnect, 30 s Connect), so it only fires when a client call never returns.
var e4HangAfter = 60 * time.Second

// e4Run runs the case on a goroutine of its own and watches it: a dead-locked client must end as a verdict
// (Stuck, with a goroutine dump), not as a test binary that runs into its deadline.
func e4Run(c e4Case) *e4Result {
	type outcome struct {
		res *e4Result
		pv  interface{}
		st  []byte
	}
	started := make(chan *e4Env, 1)
	done := make(chan outcome, 1)
	go func() {
		var o outcome
		defer func() {
			if p := recover(); p != nil {
				o.pv, o.st = p, debug.Stack()
			}
			done <- o
		}()
		o.res = e4RunBody(c, started)
	}()
	var e *e4Env
	select {
	case e = <-started:
	case o := <-done:
		if o.pv != nil {
			panic(fmt.Sprintf("%v\n%s", o.pv, o.st))
		}
		return o.res
	}
	act := func() int64 { return e.log.lastSeq() + int64(e.d.dialCount()) }
	last, lastChange := act(), time.Now()
	tick := time.NewTicker(250 * time.Millisecond)
	defer tick.Stop()
	for {
		select {
		case o := <-done:
			if o.pv != nil {
				panic(fmt.Sprintf("%v\n%s", o.pv, o.st))
			}
			return o.res
		case <-tick.C:
			if a := act(); a != last {
				last, lastChange = a, time.Now()
				continue
			}
			if time.Since(lastChange) < e4HangAfter {
				continue
			}
			// abandoned: the runner's goroutine (and whatever it is blocked in) is left behind
			r := &e4Result{Case: c, Stuck: true, Hung: true}
			r.Dump = fmt.Sprintf("the runner has been blocked inside a client call for %v with no activity anywhere\n", e4HangAfter) + vGoroutineDump()
			r.Log = e.log.snapshot()
			e.mu.Lock()
			r.Reqs = append([]e4Req{}, e.res.Reqs...)
			r.OnErrors = append([]e4OnErr{}, e.onErrors...)
			r.Handled = append([]e4Handled{}, e.handled...)
			e.mu.Unlock()
			b := e.b
			b.mu.Lock()
			r.Subs = map[string]int{}
			for k, v := range b.subs {
				r.Subs[k] = v
			}
			r.Acked = map[string]int64{}
			for k, v := range b.acked {
				r.Acked[k] = v
			}
			r.Deliver = append([]vDelivery{}, b.deliveries...)
			r.Fired = append([]string{}, b.firedFaults...)
			r.ProtoErrs = append([]string{}, b.protoErrs...)
			r.SubPkts = append([]vEvent{}, b.subPackets...)
			b.mu.Unlock()
			r.Dials = e.d.dialsSnapshot()
			return r
		}
	}
}

func e4RunBody(c e4Case, started chan<- *e4Env) (res *e4Result) {
	log := &vLog{}
	b := newVBroker(log, c.Cfg.SessionKept, c.Cfg.MethodB, c.Faults)
	b.grantMax = c.Cfg.GrantMax
	b.pingDelay = time.Duration(c.Cfg.PingDelayMs) * time.Millisecond
	b.repeatPubrec = c.Cfg.RepeatPubrec
	d := &vdialer{b: b, maxRead: c.Cfg.MaxRead}
	d.maxPayload = c.Cfg.MaxPayload
	if c.Cfg.Transport != 0 {
		d.flavour = func(conn int) int { return (c.Cfg.Transport + conn - 1) & 31 }
	}
	res = &e4Result{Case: c}
	e := &e4Env{c: c, log: log, b: b, d: d, res: res}
	started <- e
	perConn := map[int]int{}
	reused := map[int]bool{}
	for _, in := range c.Inject {
		perConn[in.Conn]++
		pk := refPacket{Type: rtPublish, Topic: "in/t", QoS: in.QoS, Payload: []byte(fmt.Sprintf("in%d.%d|", in.Conn, perConn[in.Conn]))}
		if in.QoS > 0 {
			pk.ID = 1000 + 10*in.Conn + perConn[in.Conn]
			pk.Dup = in.Dup
			if in.ReuseID && in.Conn >= 2 && !reused[in.Conn] {
				reused[in.Conn] = true
				pk.ID = vSyncIDBase + in.Conn - 1
			}
		}
		b.inject[in.Conn] = append(b.inject[in.Conn], pk)
		if in.QoS == 2 {
			b.inject[in.Conn] = append(b.inject[in.Conn], refPacket{Type: rtPubRel, ID: pk.ID})
		}
	}
	for conn := range perConn {
		b.inject[conn] = append(b.inject[conn], refPacket{Type: rtPublish, Topic: vSyncTopic, QoS: 1, ID: vSyncIDBase + conn})
	}
	rc := &RetryClient{DirectlyPublishQoS0: c.Cfg.DirectQoS0, ResponseTimeout: time.Duration(c.Cfg.RespTimeoutMs) * time.Millisecond}
	if c.Cfg.RespTimeoutLate {
		rc.ResponseTimeout = 0 // assigned when Connect has returned (see startConnect)
	}
	rc.OnError = func(err error) {
		seq := log.add(0, "ONERROR", nil, err.Error())
		e.mu.Lock()
		e.onErrors = append(e.onErrors, e4OnErr{seq, err})
		e.mu.Unlock()
		if c.Cfg.OnErrorSleepUs > 0 {
			time.Sleep(time.Duration(c.Cfg.OnErrorSleepUs) * time.Microsecond)
		}
		if c.Cfg.OnErrorCalls {
			_ = rc.Stats()
			if bc := rc.Client(); bc != nil {
				_ = bc.Err()
			}
		}
	}
	e.rc = rc
	e.pushed = new(int64)
	vHookRegister(rc, func(site string) {
		if site == "reconnect:tasks-pushed" {
			atomic.AddInt64(e.pushed, 1)
		}
		e.hookMu.Lock()
		var todo []*e4HookAction
		rest := e.pending[:0]
		for _, a := range e.pending {
			if a.site == site {
				todo = append(todo, a)
			} else {
				rest = append(rest, a)
			}
		}
		e.pending = rest
		e.hookMu.Unlock()
		for _, a := range todo {
			a.run() // on the reconnect loop's goroutine, exactly at that point of the loop
			close(a.done)
		}
	})
	defer vHookUnregister(rc)
	if c.Cfg.StateCalls {
		d.stateCalls = func(bc *BaseClient) {
			_ = bc.Err()
			if ch := bc.Done(); ch != nil {
				select {
				case <-ch:
				default:
				}
			}
			_ = rc.Stats()
			_ = rc.Client()
		}
	}
	d.onState = func(conn int, st ConnState, err error) {
		if st == StateActive && c.Cfg.StateHandle && e.cli != nil {
			n := 300 + conn
			log.add(0, "HANDLE-START", nil, fmt.Sprintf("handler=%d from-state-callback", n))
			e.cli.Handle(e.handler(n))
			log.add(0, "HANDLE", nil, fmt.Sprintf("handler=%d", n))
		}
		if st == StateActive {
			atomic.AddInt64(&e.active, 1)
		}
	}
	base, max := time.Duration(c.Cfg.BaseUs)*time.Microsecond, time.Duration(c.Cfg.MaxUs)*time.Microsecond
	if base == 0 {
		base = 500 * time.Microsecond
	}
	if max == 0 {
		max = 2 * time.Millisecond
	}
	opts := []ReconnectOption{WithRetryClient(rc), WithReconnectWait(base, max), WithAlwaysResubscribe(c.Cfg.AlwaysResub)}
	if c.Cfg.PingMs > 0 {
		opts = append(opts, WithPingInterval(time.Duration(c.Cfg.PingMs)*time.Millisecond))
	}
	if c.Cfg.PingTimeoutMs > 0 || c.Cfg.ConnTimeoutMs > 0 {
		to := c.Cfg.PingTimeoutMs
		if to == 0 {
			to = c.Cfg.ConnTimeoutMs
		}
		opts = append(opts, WithTimeout(time.Duration(to)*time.Millisecond))
	}
	cli, err := NewReconnectClient(d, opts...)
	if err != nil {
		panic(err)
	}
	e.cli = cli
	ctx, cancel := context.WithCancel(context.Background())
	defer cancel()
	e.ctx = ctx
	var chatterWG sync.WaitGroup
	var silentSince int64 // unix nanoseconds of the first silence, 0 = none
	if c.Cfg.ChatterUs > 0 {
		prev := b.onSilent
		b.onSilent = func(bc *vbConn) {
			atomic.CompareAndSwapInt64(&silentSince, 0, time.Now().UnixNano())
			if prev != nil {
				prev(bc)
			}
		}
	}
	startChatter := func() {
		if c.Cfg.ChatterUs <= 0 {
			return
		}
		budget := 100 * time.Duration(c.Cfg.PingMs+c.Cfg.PingTimeoutMs) * time.Millisecond
		if budget < time.Second {
			budget = time.Second
		}
		chatterWG.Add(1)
		go func() {
			defer chatterWG.Done()
			for ctx.Err() == nil {
				if s := atomic.LoadInt64(&silentSince); s != 0 && time.Since(time.Unix(0, s)) > budget {
					log.add(0, "CHATTER-END", nil, "")
					return
				}
				if !(c.Cfg.DirectQoS0 && rc.Client() == nil) { // (direct mode needs a client: see the SKIP note in submit)
					_ = cli.Publish(ctx, &Message{Topic: "chatter", Payload: []byte("c")})
				}
				time.Sleep(time.Duration(c.Cfg.ChatterUs) * time.Microsecond)
			}
		}()
	}
	defer func() { cancel(); chatterWG.Wait() }()
	if c.Cfg.AppPingOnSilence {
		prev := b.onSilent
		b.onSilent = func(bc *vbConn) {
			if prev != nil {
				go prev(bc)
			}
			log.add(bc.id, "APP-PING", nil, "called")
			err := cli.Ping(ctx) // no deadline of its own: it ends when the connection does
			log.add(bc.id, "APP-PING", nil, fmt.Sprintf("returned %v", err))
		}
	}

	connected := false
	var discConn *vbConn // the healthy connection that a "disconnect" step ended gracefully
	disconnected := false
	connDone := make(chan struct{})
	var connStarted bool
	held := false

	defer func() {
		// teardown: stop the loop whatever state the case ended in (the trace ends here)
		res.Log = log.snapshot()
		e.mu.Lock()
		res.Handled = append([]e4Handled{}, e.handled...)
		res.OnErrors = append([]e4OnErr{}, e.onErrors...)
		e.mu.Unlock()
		d.release()
		if connStarted && !disconnected {
			dctx, dcancel := context.WithTimeout(context.Background(), 5*time.Second)
			func() {
				defer func() { recover() }()
				_ = cli.Disconnect(dctx)
			}()
			dcancel()
		}
		cancel()
		for _, bc := range d.connsSnapshot() {
			bc.mc.Close()
		}
	}()

	var submitMu sync.Mutex
	var subBuf []Subscription // (ReuseSubBuf) the application's buffer
	subBufIdle := false       // the client went idle since the buffer was last handed to Subscribe
	submit := func(s e4Step) {
		submitMu.Lock()
		defer submitMu.Unlock()
		defer func() { subBufIdle = false }()
		q := e4Req{Idx: s.Idx, Kind: s.Kind, QoS: s.QoS, Step: s, PreConn: !connStarted, InOutage: held}
		var err error
		ctx := ctx
		if c.Cfg.CancelSubmitCtx {
			sctx, scancel := context.WithCancel(ctx)
			ctx = sctx
			defer scancel()
		}
		if c.Cfg.DirectQoS0 && s.Kind == "pub" && s.QoS == 0 && rc.Client() == nil {
			// With DirectlyPublishQoS0 a QoS0 publish goes straight to the current BaseClient; before the first
			// SetClient there is none (the library dereferences nil then).  Outside every listed property: not submitted.
			log.add(0, "SKIP", nil, fmt.Sprintf("pub idx=%d q0: direct mode and no client yet", s.Idx))
			return
		}
		switch s.Kind {
		case "pub":
			q.Tag = fmt.Sprintf("m%d", s.Idx)
			// (every third message has Dup=true left over, as a forwarded or re-used Message would)
			err = cli.Publish(ctx, &Message{Topic: s.Topic, QoS: QoS(s.QoS), Retain: s.Retain, Payload: e4Payload(s.Idx, s.Extra), ID: uint16(s.ID), Dup: s.Idx%3 == 0})
		case "sub":
			q.Tag = fmt.Sprintf("u/%d", s.Idx)
			subs := []Subscription{{Topic: q.Tag, QoS: QoS(s.QoS)}}
			for _, f := range s.Subs {
				subs = append(subs, Subscription{Topic: f.Filter, QoS: QoS(f.QoS)})
			}
			if c.Cfg.ReuseSubBuf {
				if subBufIdle && cap(subBuf) >= len(subs) {
					subBuf = subBuf[:len(subs)]
					copy(subBuf, subs) // overwrites what an earlier, completed Subscribe call was given
					subs = subBuf
				} else {
					subBuf = subs
				}
			}
			_, err = cli.Subscribe(ctx, subs...)
		case "unsub":
			q.Tag = fmt.Sprintf("u/%d", s.Idx)
			fs := []string{q.Tag}
			for _, f := range s.Subs {
				fs = append(fs, f.Filter)
			}
			err = cli.Unsubscribe(ctx, fs...)
		}
		q.Err = err
		q.Oversize = s.Kind == "pub" && c.Cfg.MaxPayload > 0 && len(e4Payload(s.Idx, s.Extra)) >= c.Cfg.MaxPayload
		q.Seq = log.add(0, "SUBMIT", nil, fmt.Sprintf("%s idx=%d q%d err=%v", s.Kind, s.Idx, s.QoS, err))
		e.mu.Lock()
		res.Reqs = append(res.Reqs, q)
		e.mu.Unlock()
	}

	startConnect := func() {
		connStarted = true
		startChatter()
		go func() {
			defer close(connDone)
			copts := []ConnectOption{WithCleanSession(c.Cfg.CleanSession)}
			if c.Cfg.KeepAliveS > 0 {
				copts = append(copts, WithKeepAlive(uint16(c.Cfg.KeepAliveS)))
			}
			cctx, ccancel := context.WithCancel(ctx)
			_, err := cli.Connect(cctx, "verif-client", copts...)
			if c.Cfg.CancelConnectCtx {
				ccancel() // after the first connection the loop must not depend on the caller's context
			}
			_ = ccancel
			if c.Cfg.RespTimeoutLate {
				rc.ResponseTimeout = time.Duration(c.Cfg.RespTimeoutMs) * time.Millisecond
			}
			e.mu.Lock()
			res.ConnectErr, res.ConnectReturn = err, true
			e.mu.Unlock()
			for i := 0; i < c.Cfg.AppPingShortN && err == nil; i++ {
				pctx, pc := context.WithTimeout(ctx, time.Millisecond)
				perr := cli.Ping(pctx)
				pc()
				log.add(0, "APP-PING-SHORT", nil, fmt.Sprintf("returned %v", perr))
			}
		}()
	}
	waitConnected := func() bool {
		select {
		case <-connDone:
			connected = true
			return true
		case <-time.After(30 * time.Second):
			return false
		}
	}

	for _, s := range c.Steps {
		switch s.Kind {
		case "pub", "sub", "unsub":
			submit(s)
		case "atHook":
			// submit s.Sub exactly when the reconnect loop next passes s.Site (on the loop's own goroutine);
			// the runner waits for that, so the submission order stays the step order
			if s.Sub == nil {
				continue
			}
			if !connStarted || held || disconnected {
				submit(*s.Sub)
				continue
			}
			sub := *s.Sub
			a := &e4HookAction{site: s.Site, done: make(chan struct{}), run: func() {
				log.add(0, "AT-HOOK", nil, s.Site)
				submit(sub)
			}}
			e.hookMu.Lock()
			e.pending = append(e.pending, a)
			e.hookMu.Unlock()
			if bc := d.currentConn(); bc != nil {
				b.mu.Lock()
				bc.kill() // provoke a reconnect: the loop will come by
				b.mu.Unlock()
			}
			select {
			case <-a.done:
			case <-time.After(3 * time.Second):
				// the loop never came by (e.g. that site is skipped in this configuration): submit directly
				e.hookMu.Lock()
				stillPending := false
				for i, x := range e.pending {
					if x == a {
						e.pending = append(e.pending[:i], e.pending[i+1:]...)
						stillPending = true
						break
					}
				}
				e.hookMu.Unlock()
				if stillPending {
					submit(sub)
				} else {
					<-a.done
				}
			}
		case "connect":
			if !connStarted {
				startConnect()
				if !held {
					if !waitConnected() {
						res.Stuck, res.Dump = true, "Connect did not return although the broker is reachable\n"+vGoroutineDump()
						return
					}
				}
			}
		case "settle":
			if connStarted && !held && !disconnected {
				if !connected && !waitConnected() {
					res.Stuck, res.Dump = true, "Connect did not return\n"+vGoroutineDump()
					return
				}
				if done, stuck := e.settle(30*time.Second, true); !done {
					if stuck {
						res.Stuck, res.Dump = true, vGoroutineDump()
					}
					res.Stats = rc.Stats()
					return
				}
				submitMu.Lock()
				subBufIdle = true
				submitMu.Unlock()
			}
		case "holdDial":
			d.hold()
			held = true
		case "releaseDial":
			d.release()
			held = false
		case "cutNow":
			if bc := d.currentConn(); bc != nil {
				b.mu.Lock()
				bc.kill()
				b.mu.Unlock()
			}
		case "inject":
			// at a settle point: message + sync marker on the current connection, then wait for the marker
			if bc := d.currentConn(); bc != nil && connected && !held {
				b.mu.Lock()
				b.syncN++
				pk := refPacket{Type: rtPublish, Topic: "in/t", QoS: s.QoS, Payload: []byte(fmt.Sprintf("ins%d|", b.syncN))}
				if s.QoS > 0 {
					pk.ID = 2000 + b.syncN
					pk.Dup = s.Retain // (the Retain field of an inject step carries "DUP")
				}
				bc.send(pk, false, "")
				if s.QoS == 2 {
					bc.send(refPacket{Type: rtPubRel, ID: pk.ID}, false, "")
				}
				mid := vSyncIDBase + 100 + b.syncN
				bc.send(refPacket{Type: rtPublish, Topic: vSyncTopic, QoS: 1, ID: mid}, false, "")
				b.mu.Unlock()
				acked := false
				vWaitUntil(20*time.Second, func() bool {
					if lc, pc := bc.mc.isClosed(); lc || pc {
						return true
					}
					for _, ev := range log.snapshot() {
						if ev.Kind == "W" && ev.Conn == bc.id && ev.Pkt.Type == rtPubAck && ev.Pkt.ID == mid {
							acked = true
							return true
						}
					}
					return false
				})
				if lc, pc := bc.mc.isClosed(); !acked && !lc && !pc {
					// a healthy connection that has not answered a QoS1 marker for 20 s: its reader is stuck
					res.ReaderStuck = fmt.Sprintf("connection c%d did not process inbound packets for 20 s (marker %d never acknowledged, link up)", bc.id, mid)
					res.Dump = vGoroutineDump()
				}
			}
		case "handle":
			atomic.StoreInt32(&e.curH, int32(s.Extra))
			log.add(0, "HANDLE-START", nil, fmt.Sprintf("handler=%d", s.Extra))
			cli.Handle(e.handler(s.Extra))
			log.add(0, "HANDLE", nil, fmt.Sprintf("handler=%d", s.Extra))
		case "handleStalled":
			// Handle() is held up at the point where it needs the lock of the BaseClient it was given - as a goroutine
			// that lost the CPU there would be - while the reconnect loop installs and connects the next client.
			// (The runner is in-package: the old connection is ended first, with the dialler held so that the loop
			// cannot go on yet; then the runner takes the finished client's read lock itself, starts Handle, lets the
			// dialler go and keeps the lock for s.ID microseconds.)
			bc := d.currentConn()
			atomic.StoreInt32(&e.curH, int32(s.Extra))
			plain := bc == nil || !connected || held || disconnected
			if !plain {
				d.hold()
				b.mu.Lock()
				bc.kill()
				b.mu.Unlock()
				select {
				case <-bc.cli.Done():
				case <-time.After(10 * time.Second):
					plain = true
					d.release()
				}
			}
			if plain {
				log.add(0, "HANDLE-START", nil, fmt.Sprintf("handler=%d", s.Extra))
				cli.Handle(e.handler(s.Extra))
				log.add(0, "HANDLE", nil, fmt.Sprintf("handler=%d", s.Extra))
				continue
			}
			if s.Topic == "stats" {
				// variant: the reconnect loop is held up between SetClient and the end of RetryClient.Connect - at the
				// statistics lock, which Connect takes after it has dealt with the handler - while Handle is called and
				// returns. (The lock is taken on the loop's goroutine at the observation point behind SetClient and released
				// here after Handle came back.)
				got := make(chan struct{})
				a := &e4HookAction{site: "reconnect:client-set", done: make(chan struct{}), run: func() {
					rc.muStats.Lock()
					close(got)
				}}
				e.hookMu.Lock()
				e.pending = append(e.pending, a)
				e.hookMu.Unlock()
				d.release()
				select {
				case <-got:
					for i := 0; i < 200; i++ {
						runtime.Gosched() // let the loop run into Connect, up to the statistics lock
					}
					time.Sleep(time.Duration(s.ID) * time.Microsecond)
					log.add(0, "HANDLE-START", nil, fmt.Sprintf("handler=%d while the loop is inside Connect", s.Extra))
					cli.Handle(e.handler(s.Extra))
					log.add(0, "HANDLE", nil, fmt.Sprintf("handler=%d", s.Extra))
					rc.muStats.Unlock()
				case <-time.After(10 * time.Second):
					e.hookMu.Lock()
					for i, x := range e.pending {
						if x == a {
							e.pending = append(e.pending[:i], e.pending[i+1:]...)
							break
						}
					}
					e.hookMu.Unlock()
					select {
					case <-got: // it ran after all: give the lock back
						rc.muStats.Unlock()
					default:
					}
					log.add(0, "HANDLE-START", nil, fmt.Sprintf("handler=%d", s.Extra))
					cli.Handle(e.handler(s.Extra))
					log.add(0, "HANDLE", nil, fmt.Sprintf("handler=%d", s.Extra))
				}
				continue
			}
			locked := bc.cli
			if s.Retain {
				// variant: it is the *next* client whose lock is held (from the moment the dialler hands it out), so that
				// whatever the reconnect loop does to the new client's handler is held up while Handle is called
				d.mu.Lock()
				d.lockNext, d.lockedCli = true, nil
				d.mu.Unlock()
				d.release()
				if !vWaitUntil(10*time.Second, func() bool { d.mu.Lock(); defer d.mu.Unlock(); return d.lockedCli != nil }) {
					d.mu.Lock()
					d.lockNext = false
					d.mu.Unlock()
					log.add(0, "HANDLE-START", nil, fmt.Sprintf("handler=%d", s.Extra))
					cli.Handle(e.handler(s.Extra))
					log.add(0, "HANDLE", nil, fmt.Sprintf("handler=%d", s.Extra))
					continue
				}
				d.mu.Lock()
				locked = d.lockedCli
				d.mu.Unlock()
				for i := 0; i < 50; i++ {
					runtime.Gosched()
				}
			} else {
				locked.mu.RLock()
			}
			hdone := make(chan struct{})
			log.add(0, "HANDLE-START", nil, fmt.Sprintf("handler=%d stalled", s.Extra))
			go func() {
				defer close(hdone)
				cli.Handle(e.handler(s.Extra))
				log.add(0, "HANDLE", nil, fmt.Sprintf("handler=%d", s.Extra))
			}()
			for i := 0; i < 50; i++ {
				runtime.Gosched()
			}
			d.release()
			time.Sleep(time.Duration(s.ID) * time.Microsecond)
			locked.mu.RUnlock()
			<-hdone
		case "sleep":
			time.Sleep(time.Duration(s.Extra) * time.Microsecond)
		case "sleepBase":
			// relative to the reconnect wait, so that the next step lands around the moment of the redial
			if dur := base + time.Duration(s.Extra)*time.Microsecond; dur > 0 {
				time.Sleep(dur)
			}
		case "yield":
			runtime.Gosched()
		case "sample":
			// C16: what do Err() and Done() say about the connection right now
			if disconnected {
				if discConn != nil {
					smp := c16Sample{Seq: log.lastSeq(), Conn: discConn.id, AfterDisc: true, Err: discConn.cli.Err()}
					lc, pc := discConn.mc.isClosed()
					smp.TransportClosed = lc || pc
					select {
					case <-discConn.cli.Done():
					default:
						smp.DoneOpen = true
					}
					res.Samples = append(res.Samples, smp)
				}
			} else if bc := d.currentConn(); bc != nil && connected {
				b.mu.Lock()
				healthy := !bc.dead && !bc.silent && bc.connected
				b.mu.Unlock()
				smp := c16Sample{Seq: log.lastSeq(), Conn: bc.id, Err: bc.cli.Err()}
				select {
				case <-bc.cli.Done():
				default:
					smp.DoneOpen = true
				}
				// healthy only if it still is after the sample was taken
				b.mu.Lock()
				smp.Healthy = healthy && !bc.dead && !bc.silent
				b.mu.Unlock()
				res.Samples = append(res.Samples, smp)
			}
		case "disconnect":
			if connStarted && !disconnected {
				if bc := d.currentConn(); bc != nil {
					b.mu.Lock()
					if !bc.dead && !bc.silent && bc.connected {
						discConn = bc
					}
					b.mu.Unlock()
				}
				dctx, dcancel := context.WithTimeout(context.Background(), 20*time.Second)
				res.DisconnectErr = cli.Disconnect(dctx)
				dcancel()
				disconnected, res.Disconnected = true, true
			}
		}
	}
	// the broker now stays reachable: no gate, and every fault is finite
	d.release()
	held = false
	if !connStarted {
		startConnect()
	}
	if disconnected {
		res.Stats = rc.Stats()
		return
	}
	if !connected && !waitConnected() {
		res.Stuck, res.Dump = true, "Connect did not return although the broker is reachable\n"+vGoroutineDump()
		return
	}
	done, stuck := e.settle(45*time.Second, true)
	res.Quiesced, res.Stuck = done, stuck
	if !done {
		e.mu.Lock()
		why := e.barrierWhy
		e.mu.Unlock()
		res.Dump = "idle barrier last refused because: " + why + "\n" + vGoroutineDump()
	}
	res.Stats = rc.Stats()
	b.mu.Lock()
	res.Subs = map[string]int{}
	for k, v := range b.subs {
		res.Subs[k] = v
	}
	res.Acked = map[string]int64{}
	for k, v := range b.acked {
		res.Acked[k] = v
	}
	res.Deliver = append([]vDelivery{}, b.deliveries...)
	res.Fired = append([]string{}, b.firedFaults...)
	res.ProtoErrs = append([]string{}, b.protoErrs...)
	res.SubPkts = append([]vEvent{}, b.subPackets...)
	b.mu.Unlock()
	res.Dials = d.dialsSnapshot()
	res.Conns = d.connsSnapshot()
	for _, bc := range res.Conns {
		ce := e4ConnEnd{ID: bc.id, Err: bc.cli.Err()}
		bc.stMu.Lock()
		ce.States = append([]vStateEv{}, bc.states...)
		bc.stMu.Unlock()
		lc, pc := bc.mc.isClosed()
		ce.Closed = lc || pc
		if dch := bc.cli.Done(); dch != nil {
			select {
			case <-dch:
				ce.DoneClosed = true
			default:
			}
		}
		b.mu.Lock()
		ce.Connected = bc.connected
		b.mu.Unlock()
		res.ConnEnd = append(res.ConnEnd, ce)
	}
	return res
}

// ---------------------------------------------------------------------------
// shared generators

type e4GenOpts struct {
	MaxSteps    int
	QoSWeights  []int // weights for qos 0,1,2
	SubWeight   int   // relative weight of sub/unsub steps against 10 for pub
	MaxFaults   int
	FaultKinds  []string
	AllowRefuse bool
	Outages     bool
	PreConnect  bool
	FilterPool  []string
	CutTypes    []int
	MaxConn     int
	NoCuts      bool // no un-gated cutNow steps
}

var e4Topics = []string{"t/a", "t/b", "x"}

func e4GenSteps(rt *rapid.T, o e4GenOpts) []e4Step {
	type raw struct {
		Kind   int
		QoS    int
		Retain bool
		Topic  string
		Extra  int
		NSubs  int
		F      []c05Sub
		Ctl    int
	}
	pool := o.FilterPool
	if len(pool) == 0 {
		pool = []string{"a", "b", "a/+", "c/#"}
	}
	var qosPool []int
	for q, w := range o.QoSWeights {
		for i := 0; i < w; i++ {
			qosPool = append(qosPool, q)
		}
	}
	if len(qosPool) == 0 {
		qosPool = []int{0, 1, 1, 2, 2}
	}
	raws := rapid.SliceOfN(rapid.Custom(func(rt *rapid.T) raw {
		r := raw{Kind: rapid.IntRange(0, 9+o.SubWeight+4).Draw(rt, "kind")}
		r.QoS = rapid.SampledFrom(qosPool).Draw(rt, "qos")
		r.Retain = rapid.IntRange(0, 3).Draw(rt, "retain") == 0
		r.Topic = rapid.SampledFrom(e4Topics).Draw(rt, "topic")
		r.Extra = rapid.SampledFrom([]int{0, 0, 1, 5, 200}).Draw(rt, "extra")
		r.NSubs = rapid.IntRange(0, 2).Draw(rt, "nsubs")
		for i := 0; i < r.NSubs; i++ {
			r.F = append(r.F, c05Sub{Filter: rapid.SampledFrom(pool).Draw(rt, "f"), QoS: rapid.IntRange(0, 2).Draw(rt, "fq")})
		}
		r.Ctl = rapid.SampledFrom([]int{0, 1, 2, 2, 3, 3, 4, 5, 6, 6, 6, 7, 7, 7}).Draw(rt, "ctl")
		return r
	}), 1, o.MaxSteps).Draw(rt, "steps")

	var steps []e4Step
	idx := 0
	connected := false
	held := false
	connectAt := 0
	if o.PreConnect {
		connectAt = rapid.IntRange(0, 3).Draw(rt, "connectAt")
	}
	for i, r := range raws {
		if !connected && i >= connectAt {
			steps = append(steps, e4Step{Kind: "connect"})
			connected = true
		}
		switch {
		case r.Kind <= 9:
			idx++
			steps = append(steps, e4Step{Kind: "pub", QoS: r.QoS, Retain: r.Retain, Topic: r.Topic, Extra: r.Extra, Idx: idx})
		case r.Kind <= 9+o.SubWeight:
			idx++
			k := "sub"
			if r.Ctl%2 == 1 {
				k = "unsub"
			}
			steps = append(steps, e4Step{Kind: k, QoS: r.QoS, Subs: r.F, Idx: idx})
		default:
			if !connected {
				continue
			}
			switch r.Ctl {
			case 0, 1:
				if !held {
					steps = append(steps, e4Step{Kind: "settle"})
				}
			case 2:
				if o.Outages && !held {
					steps = append(steps, e4Step{Kind: "holdDial"}, e4Step{Kind: "cutNow"})
					held = true
				}
			case 3:
				if held {
					steps = append(steps, e4Step{Kind: "releaseDial"})
					held = false
				}
			case 4:
				steps = append(steps, e4Step{Kind: "sleep", Extra: r.Extra * 10})
			case 7:
				if !held && !o.NoCuts {
					idx++
					k := "pub"
					if r.NSubs == 2 {
						k = "sub"
					} else if r.NSubs == 1 && r.Kind%2 == 0 {
						k = "unsub"
					}
					sub := e4Step{Kind: k, QoS: r.QoS, Retain: r.Retain, Topic: r.Topic, Extra: r.Extra, Idx: idx}
					if k != "pub" {
						sub.Subs = r.F
					}
					site := []string{"reconnect:client-set", "reconnect:connected", "reconnect:resubscribed", "reconnect:tasks-pushed"}[(r.Extra+r.QoS+len(r.Topic))%4]
					steps = append(steps, e4Step{Kind: "atHook", Site: site, Sub: &sub})
				}
			case 6:
				// un-gated cut: the reconnect races with the following submissions
				if !held && !o.NoCuts {
					steps = append(steps, e4Step{Kind: "cutNow"})
					if r.Extra > 0 {
						steps = append(steps, e4Step{Kind: "sleepBase", Extra: r.Extra*2 - 100})
					}
				}
			case 5:
				steps = append(steps, e4Step{Kind: "yield"})
			}
		}
	}
	if !connected {
		steps = append(steps, e4Step{Kind: "connect"})
	}
	return steps
}

func e4GenFaults(rt *rapid.T, o e4GenOpts) []e4Fault {
	kinds := o.FaultKinds
	if len(kinds) == 0 {
		kinds = []string{"cut", "cut", "cutType", "cutType", "cutType", "dialErr"}
		if o.AllowRefuse {
			kinds = append(kinds, "refuse", "silentConnack")
		}
	}
	cutTypes := o.CutTypes
	if len(cutTypes) == 0 {
		cutTypes = []int{rtConnect, rtPublish, rtPublish, rtPubRel, rtPubRel, rtSubscribe, rtUnsubscribe}
	}
	maxConn := o.MaxConn
	if maxConn == 0 {
		maxConn = 5
	}
	fs := rapid.SliceOfN(rapid.Custom(func(rt *rapid.T) e4Fault {
		f := e4Fault{Kind: rapid.SampledFrom(kinds).Draw(rt, "fkind"), Conn: rapid.IntRange(0, 9).Draw(rt, "conn")}
		switch f.Kind {
		case "cut":
			f.Pkt = rapid.SampledFrom([]int{1, 2, 2, 2, 3, 3, 4, 5, 6}).Draw(rt, "pkt")
			f.After = rapid.Bool().Draw(rt, "after")
		case "cutType":
			f.Type = rapid.SampledFrom(cutTypes).Draw(rt, "type")
			f.Nth = rapid.SampledFrom([]int{1, 1, 1, 2, 2, 3}).Draw(rt, "nth")
			f.After = rapid.Bool().Draw(rt, "after")
		case "refuse":
			f.Code = rapid.SampledFrom([]int{1, 2, 3, 4, 5, 6, 0x84, 255}).Draw(rt, "code")
		case "dialErr":
			f.Code = rapid.SampledFrom([]int{0, 0, 1, 2}).Draw(rt, "dialErrKind") // 1, 2: a context error in the chain
		case "garbage", "goSilent", "closeAfter":
			f.Pkt = rapid.IntRange(1, 5).Draw(rt, "pkt")
		}
		return f
	}), 0, o.MaxFaults).Draw(rt, "faults")
	// Conn was drawn as a raw 0..9: map it so that the i-th fault lands on one of the first i+1
	// connections (faults pile up on successive connections instead of waiting on ones never reached)
	for i := range fs {
		hi := i + 1
		if hi > maxConn {
			hi = maxConn
		}
		fs[i].Conn = 1 + (fs[i].Conn*7+i)%hi
		if fs[i].Conn < hi && fs[i].Conn%2 == 0 && i > 0 {
			fs[i].Conn = hi // bias towards the newest connection: consecutive faults
		}
	}
	return fs
}

func e4GenConfig(rt *rapid.T) e4Config {
	return e4Config{
		CleanSession:     rapid.IntRange(0, 3).Draw(rt, "clean") == 0,
		SessionKept:      rapid.IntRange(0, 3).Draw(rt, "kept") != 0,
		AlwaysResub:      rapid.IntRange(0, 4).Draw(rt, "always") == 0,
		MethodB:          rapid.Bool().Draw(rt, "methodB"),
		BaseUs:           rapid.SampledFrom([]int{200, 500, 1000}).Draw(rt, "baseUs"),
		MaxUs:            rapid.SampledFrom([]int{1000, 2000, 4000}).Draw(rt, "maxUs"),
		MaxRead:          rapid.SampledFrom([]int{0, 0, 0, 1, 3}).Draw(rt, "maxRead"),
		CancelConnectCtx: rapid.Bool().Draw(rt, "cancelConnectCtx"),
		// a response timeout that never fires: only switches the client to its timeout code paths
		RespTimeoutMs:  rapid.SampledFrom([]int{0, 0, 60000}).Draw(rt, "respTimeoutMs"),
		OnErrorSleepUs: rapid.SampledFrom([]int{0, 0, 0, 1500, 3000}).Draw(rt, "onErrorSleepUs"),
		GrantMax:       rapid.SampledFrom([]int{0, 0, 0, 1, 2}).Draw(rt, "grantMax"),
		// DirectlyPublishQoS0: QoS0 messages bypass the queue (C03 forces the default mode, which is what it speaks of)
		DirectQoS0:      rapid.IntRange(0, 3).Draw(rt, "directQoS0") == 0,
		OnErrorCalls:    rapid.IntRange(0, 2).Draw(rt, "onErrorCalls") == 0,
		StateCalls:      rapid.IntRange(0, 2).Draw(rt, "stateCalls") == 0,
		RepeatPubrec:    rapid.IntRange(0, 2).Draw(rt, "repeatPubrec") == 0,
		ReuseSubBuf:     rapid.IntRange(0, 2).Draw(rt, "reuseSubBuf") == 0,
		CancelSubmitCtx: rapid.IntRange(0, 2).Draw(rt, "cancelSubmitCtx") == 0,
		Transport:       rapid.SampledFrom([]int{0, 0, 1, 2, 3, 4, 5, 7}).Draw(rt, "transport"),
	}
}

// e4NeedsConnTimeout: a silent CONNACK can only be survived with WithTimeout.
func e4NeedsConnTimeout(fs []e4Fault) bool {
	for _, f := range fs {
		if f.Kind == "silentConnack" {
			return true
		}
	}
	return false
}

var _ = errors.New
