//go:build verif

package mqtt

// C18 — with a response timeout, a silent broker cannot stall the client.

import (
	"errors"
	"fmt"
	"testing"

	"pgregory.net/rapid"
)

func c18Gen(rt *rapid.T) e4Case {
	o := e4GenOpts{MaxSteps: 6, QoSWeights: []int{0, 3, 4}, SubWeight: 5, MaxFaults: 0, Outages: false, PreConnect: true}
	c := e4Case{Cfg: e4GenConfig(rt)}
	c.Cfg.RespTimeoutMs = rapid.SampledFrom([]int{5, 10, 20}).Draw(rt, "respTimeoutMs")
	c.Cfg.RepeatPubrec = false // (a repeated PUBREC can stand in for the one this case drops: the drop would then be no silence)
	c.Steps = e4GenSteps(rt, o)
	ackTypes := []int{rtPubAck, rtPubRec, rtPubComp, rtSubAck, rtUnsubAck}
	n := rapid.IntRange(1, 3).Draw(rt, "nDrops")
	for i := 0; i < n; i++ {
		// connection: the one of the first transmission, or (after a drop / cut) the retransmitting one
		c.Faults = append(c.Faults, e4Fault{Kind: "dropAck", Conn: rapid.IntRange(1, i+1).Draw(rt, "conn"), Type: rapid.SampledFrom(ackTypes).Draw(rt, "ack"), Nth: rapid.SampledFrom([]int{1, 1, 2}).Draw(rt, "nth")})
	}
	if rapid.IntRange(0, 4).Draw(rt, "lateTimeout") == 0 {
		// the application configures the response timeout only once it is connected, before it makes its first request
		var rest []e4Step
		for _, st := range c.Steps {
			if st.Kind != "connect" {
				rest = append(rest, st)
			}
		}
		c.Steps = append([]e4Step{{Kind: "connect"}, {Kind: "settle"}}, rest...)
		n := 0
		for i := range c.Steps {
			switch c.Steps[i].Kind {
			case "pub", "sub", "unsub":
				n++
				c.Steps[i].Idx = n
			}
		}
		c.Cfg.RespTimeoutLate = true
	}
	if rapid.IntRange(0, 3).Draw(rt, "stall") == 0 {
		// a broker that stops reading as well as answering, with the keep-alive as a second writer: the j-th packet
		// (j >= 2) is never answered and every later Write blocks until the client closes the transport
		c.Faults = append(c.Faults, e4Fault{Kind: "stall", Conn: rapid.IntRange(1, 2).Draw(rt, "stallConn"), Pkt: rapid.IntRange(2, 5).Draw(rt, "stallPkt")})
		c.Cfg.PingMs = rapid.IntRange(2, 5).Draw(rt, "pingMs2")
		c.Cfg.PingTimeoutMs = 50
	}
	if rapid.Bool().Draw(rt, "withCut") {
		c.Faults = append(c.Faults, e4Fault{Kind: "cutType", Conn: 1, Type: rapid.SampledFrom([]int{rtPublish, rtPubRel, rtSubscribe, rtUnsubscribe}).Draw(rt, "cutType"), Nth: 1, After: rapid.Bool().Draw(rt, "after")})
	}
	return c
}

func c18Oracle(r *e4Result) (string, []string, bool) {
	var labels []string
	drops := 0
	retransDrop := false
	for _, e := range r.Log {
		if e.Kind != "B-DROPPED" {
			continue
		}
		drops++
		labels = append(labels, "c18:drop-"+refTypeNames[e.Pkt.Type])
		// was the request whose ack is dropped a retransmission (emitted on an earlier connection as well)?
		firstConn := e.Conn
		for _, l := range r.Log {
			if e4Emitted(l) && l.Seq < e.Seq && l.Pkt.ID == e.Pkt.ID && l.Conn < e.Conn && (l.Pkt.Type == rtPublish || l.Pkt.Type == rtPubRel) {
				firstConn = l.Conn
			}
		}
		if firstConn != e.Conn {
			retransDrop = true
			labels = append(labels, "c18:drop-on-retransmitting-connection")
		}
		cutByBroker := false
		closedLocal := false
		var closeSeq int64
		for _, l := range r.Log {
			if l.Seq <= e.Seq || l.Conn != e.Conn {
				continue
			}
			if l.Kind == "CUT" && !closedLocal {
				cutByBroker = true
			}
			if l.Kind == "CLOSE-LOCAL" && !closedLocal {
				closedLocal, closeSeq = true, l.Seq
			}
		}
		if cutByBroker {
			continue // the link died for another reason before the timeout could act
		}
		byKeepAlive := false
		for _, ce := range r.ConnEnd {
			if ce.ID == e.Conn && ce.Err != nil && errors.Is(ce.Err, ErrPingTimeout) {
				byKeepAlive = true
			}
		}
		if byKeepAlive {
			continue // (cases with keep-alive: an unanswered ping ended that connection first, which is just as good)
		}
		if !closedLocal {
			if r.Stuck {
				return fmt.Sprintf("the %s for id %d was dropped on c%d (#%d) and the client now waits indefinitely: transport not closed, nothing happens (ResponseTimeout %d ms); %s",
					refTypeNames[e.Pkt.Type], e.Pkt.ID, e.Conn, e.Seq, r.Case.Cfg.RespTimeoutMs, e4Undone(r)), labels, drops > 0
			}
			if r.Quiesced {
				return fmt.Sprintf("the %s for id %d was dropped on c%d (#%d) but the client never closed that connection", refTypeNames[e.Pkt.Type], e.Pkt.ID, e.Conn, e.Seq), labels, drops > 0
			}
			continue
		}
		found := false
		for _, oe := range r.OnErrors {
			var rte *RequestTimeoutError
			if oe.Seq > e.Seq && errors.As(oe.Err, &rte) {
				found = true
				break
			}
		}
		if !found {
			return fmt.Sprintf("the %s for id %d was dropped on c%d (#%d), the connection was closed (#%d) but OnError never received a RequestTimeoutError", refTypeNames[e.Pkt.Type], e.Pkt.ID, e.Conn, e.Seq, closeSeq), labels, drops > 0
		}
		if r.Quiesced {
			redial := false
			for _, l := range r.Log {
				if l.Kind == "DIAL" && l.Seq > closeSeq {
					redial = true
				}
			}
			if !redial {
				return fmt.Sprintf("connection c%d was closed after the response timeout (#%d) but no new connection was dialled", e.Conn, closeSeq), labels, drops > 0
			}
		}
	}
	for _, e := range r.Log {
		if e.Kind == "STALL" {
			drops++
			labels = append(labels, "c18:peer-stopped-reading")
		}
	}
	if msg := e4OracleC01(r); msg != "" {
		return msg, labels, drops > 0
	}
	_ = retransDrop
	return "", labels, drops > 0
}

func TestVerifC18_ResponseTimeout(t *testing.T) {
	vRun(t, "C18", vOpts{CurFile: true, ReplayReps: 10}, c18Gen, func(tb rapid.TB, c e4Case) {
		e4Check(tb, "C18", c, func(r *e4Result) string {
			msg, _, _ := c18Oracle(r)
			return msg
		}, func(r *e4Result) (bool, []string) {
			_, labels, nt := c18Oracle(r)
			return nt, labels
		})
	})
}

// TestVerifC19_ResponseTimeout: C19's clause "an expired response timeout of the retrying client is identifiable as
// RequestTimeoutError", for first transmissions and retransmissions alike: after every silently dropped acknowledgement
// (on a link the broker did not cut) OnError receives an error for which errors.As(**RequestTimeoutError) holds, and
// that error still exposes its context cause.
func TestVerifC19_ResponseTimeout(t *testing.T) {
	vRun(t, "C19", vOpts{CurFile: true, ReplayReps: 10}, c18Gen, func(tb rapid.TB, c e4Case) {
		e4Check(tb, "C19", c, func(r *e4Result) string {
			for _, e := range r.Log {
				if e.Kind != "B-DROPPED" {
					continue
				}
				cut, closed := false, false
				for _, l := range r.Log {
					if l.Seq > e.Seq && l.Conn == e.Conn {
						if l.Kind == "CUT" && !closed {
							cut = true
						}
						if l.Kind == "CLOSE-LOCAL" {
							closed = true
						}
					}
				}
				if cut || !closed {
					continue // C18 decides whether the client reacts at all; here only what the reported error looks like
				}
				found := false
				for _, oe := range r.OnErrors {
					var rte *RequestTimeoutError
					if oe.Seq > e.Seq && errors.As(oe.Err, &rte) {
						found = true
					}
				}
				if !found {
					return fmt.Sprintf("the %s for id %d was dropped on c%d (#%d) and the client gave up on that connection, but no error passed to OnError is identifiable as RequestTimeoutError (errors.As)", refTypeNames[e.Pkt.Type], e.Pkt.ID, e.Conn, e.Seq)
				}
			}
			return ""
		}, func(r *e4Result) (bool, []string) {
			n := 0
			for _, e := range r.Log {
				if e.Kind == "B-DROPPED" {
					n++
				}
			}
			return n > 0, []string{"response-timeout-via-onerror"}
		})
	})
}
