//go:build verif

package mqtt

// C09 — reconnect lifecycle: redial after loss with back-off, one live transport, one identical
// CONNECT per connection, stop on Disconnect / cancellation.

import (
	"context"
	"fmt"
	"strings"
	"sync"
	"testing"
	"time"

	"pgregory.net/rapid"
)

type c09Attempt struct {
	Outcome string `json:"outcome"` // dialErr | refuse | silent | closeAfterConnack | garbage | goSilent | up
	Code    int    `json:"code,omitempty"`
	DelayUs int    `json:"delayUs,omitempty"` // dialErr: the dial takes this long before it fails
}

type c09Case struct {
	BaseUs    int          `json:"baseUs"`
	MaxUs     int          `json:"maxUs"`
	Attempts  []c09Attempt `json:"attempts"`            // outcome of dial attempt 1, 2, ...; beyond the list: up
	Stop      string       `json:"stop,omitempty"`      // "" | disconnect | cancel
	StopPhase string       `json:"stopPhase,omitempty"` // dialling | connecting | connected | waiting
	StopAt    int          `json:"stopAt,omitempty"`    // attempt number the phase refers to
	Clean     bool         `json:"clean,omitempty"`
	KeepAlive int          `json:"keepAlive,omitempty"`
	Will      bool         `json:"will,omitempty"`
	User      bool         `json:"user,omitempty"`
	IDKind    int          `json:"idKind,omitempty"` // 0 "verif-c09", 1 empty, 2 300 bytes, 3 non-ASCII
	// InHandler (stop = disconnect, phase connected): Disconnect is called by the application's message handler, i.e. on the
	// client's reader goroutine, when a message arrives - not from a goroutine of its own
	InHandler bool `json:"inHandler,omitempty"`
	// CancelInActive (no stop): the context of Connect ends inside the ConnState(Active) callback of the first connection that
	// succeeds - after the accepting CONNACK, before Connect has returned. Connect may report either outcome; the connection
	// exists, so the loop must go on supervising it (redial after a loss) and Disconnect must stop it.
	CancelInActive bool `json:"cancelInActive,omitempty"`
	// DiscCtxDone (stop = disconnect): the context handed to Disconnect has already ended (<-ctx.Done(); cli.Disconnect(ctx),
	// the usual shutdown path): Disconnect may then return that context's error at once, but the loop must stop all the same
	DiscCtxDone bool `json:"discCtxDone,omitempty"`
	PingS       int  `json:"pingS,omitempty"` // WithPingInterval in seconds (never due within a case); CONNECT must not change
}

func c09ClientID(kind int) string {
	switch kind {
	case 1:
		return ""
	case 2:
		s := "verif-c09-"
		for len(s) < 300 {
			s += "0123456789abcdef"
		}
		return s
	case 3:
		return "vérif/c09 日本 +#"
	}
	return "verif-c09"
}

type c09Result struct {
	log       *vLog
	dials     []vDialEv
	conns     []*vbConn
	stuck     string
	inconcl   string
	panicked  interface{}
	tStop     time.Time
	seqStop   int64
	stopErr   error
	doneAfter bool
}

func c09Run(tb rapid.TB, c c09Case) {
	log := &vLog{}
	var plan []e4Fault
	pingNeeded := false
	for i, a := range c.Attempts {
		k := i + 1
		switch a.Outcome {
		case "dialErr":
			plan = append(plan, e4Fault{Kind: "dialErr", Conn: k, Code: a.Code, DelayUs: a.DelayUs})
		case "refuse":
			plan = append(plan, e4Fault{Kind: "refuse", Conn: k, Code: a.Code})
		case "silent":
			plan = append(plan, e4Fault{Kind: "silentConnack", Conn: k})
		case "closeAfterConnack":
			plan = append(plan, e4Fault{Kind: "closeAfter", Conn: k, Pkt: 1})
		case "garbage":
			plan = append(plan, e4Fault{Kind: "garbage", Conn: k, Pkt: 1})
		case "goSilent":
			plan = append(plan, e4Fault{Kind: "goSilent", Conn: k, Pkt: 1})
			pingNeeded = true
		}
	}
	b := newVBroker(log, true, false, plan)
	d := &vdialer{b: b}
	base, max := time.Duration(c.BaseUs)*time.Microsecond, time.Duration(c.MaxUs)*time.Microsecond
	rc := &RetryClient{}
	opts := []ReconnectOption{WithRetryClient(rc), WithReconnectWait(base, max), WithTimeout(25 * time.Millisecond)}
	if pingNeeded {
		opts = append(opts, WithPingInterval(3*time.Millisecond))
	} else if c.PingS > 0 {
		opts = append(opts, WithPingInterval(time.Duration(c.PingS)*time.Second))
	}
	cliI, err := NewReconnectClient(d, opts...)
	if err != nil {
		tb.Fatalf("harness: %v", err)
	}
	cli := cliI.(*reconnectClient)
	copts := []ConnectOption{WithCleanSession(c.Clean), WithKeepAlive(uint16(c.KeepAlive))}
	if c.Will {
		copts = append(copts, WithWill(&Message{Topic: "will/t", Payload: []byte("gone"), QoS: QoS1, Retain: true}))
	}
	if c.User {
		copts = append(copts, WithUserNamePassword("user", "secret"))
	}
	ctx, cancel := context.WithCancel(context.Background())
	defer cancel()

	activity := func() int64 { return log.lastSeq() + int64(d.dialCount()) }
	// waitFor polls cond; returns "" (ok), "stuck" or "inconclusive"
	waitFor := func(cond func() bool) string {
		deadline := time.Now().Add(40 * time.Second)
		lastAct, lastChange := activity(), time.Now()
		for i := 0; ; i++ {
			if cond() {
				return ""
			}
			if a := activity(); a != lastAct {
				lastAct, lastChange = a, time.Now()
			} else if time.Since(lastChange) > e4StuckAfter {
				return "stuck"
			}
			if time.Now().After(deadline) {
				return "inconclusive"
			}
			if i < 50 {
				time.Sleep(20 * time.Microsecond)
			} else {
				time.Sleep(200 * time.Microsecond)
			}
		}
	}
	hasEvent := func(conn int, kind string, pred func(vEvent) bool) bool {
		for _, e := range log.snapshot() {
			if e.Conn == conn && e.Kind == kind && (pred == nil || pred(e)) {
				return true
			}
		}
		return false
	}
	loopDone := func() bool {
		select {
		case <-cli.done:
			return true
		default:
			return false
		}
	}
	fail := func(format string, args ...interface{}) {
		d.release()
		cancel()
		func() {
			defer func() { recover() }()
			select {
			case <-cli.disconnected:
			default:
				dctx, dc := context.WithTimeout(context.Background(), 2*time.Second)
				cli.Disconnect(dctx)
				dc()
			}
		}()
		for _, bc := range d.connsSnapshot() {
			bc.mc.Close()
		}
		vFailf(tb, map[string]interface{}{"trace": log.strings(300)}, format, args...)
	}

	if c.Stop != "" && c.StopPhase == "dialling" {
		d.holdFrom, d.holdGate = c.StopAt, make(chan struct{})
	}
	if c.CancelInActive && c.Stop == "" {
		var once sync.Once
		d.onState = func(conn int, st ConnState, err error) {
			if st == StateActive {
				once.Do(func() {
					log.add(0, "CANCEL-IN-ACTIVE", nil, "")
					cancel()
				})
			}
		}
	}
	connRet := make(chan error, 1)
	go func() {
		_, err := cli.Connect(ctx, c09ClientID(c.IDKind), copts...)
		connRet <- err
	}()

	var labels []string
	nontrivial := false
	stopped := false
	var tStop time.Time
	var seqStop int64
	var stopPanic interface{}
	discRet := make(chan error, 1)

	doStop := func() {
		stopped = true
		if c.Stop == "cancel" {
			cancel()
			tStop, seqStop = time.Now(), log.add(0, "STOP", nil, "context cancelled")
			return
		}
		callDisconnect := func() {
			defer func() {
				if r := recover(); r != nil {
					stopPanic = r
					discRet <- fmt.Errorf("panic: %v", r)
				}
			}()
			dctx, dc := context.WithTimeout(context.Background(), 30*time.Second)
			defer dc()
			if c.DiscCtxDone {
				dc()
			}
			discRet <- cli.Disconnect(dctx)
		}
		viaHandler := false
		if c.InHandler && c.StopPhase == "connected" {
			if bc := d.currentConn(); bc != nil {
				var once sync.Once
				cli.Handle(HandlerFunc(func(m *Message) {
					if m.Topic == "stop" {
						once.Do(func() {
							log.add(0, "STOP-IN-HANDLER", nil, "")
							callDisconnect()
						})
					}
				}))
				b.mu.Lock()
				bc.send(refPacket{Type: rtPublish, Topic: "stop", Payload: []byte("x")}, false, "")
				b.mu.Unlock()
				viaHandler = vWaitUntil(2*time.Second, func() bool {
					select {
					case <-cli.disconnected:
						return true
					default:
						return false
					}
				})
			}
		}
		if !viaHandler {
			select {
			case <-cli.disconnected:
			default:
				go callDisconnect() // (the message did not get through: that connection was already gone)
			}
		}
		// the stop takes effect when 'disconnected' is closed (first statement of Disconnect)
		vWaitUntil(10*time.Second, func() bool {
			select {
			case <-cli.disconnected:
				return true
			default:
				return false
			}
		})
		tStop, seqStop = time.Now(), log.add(0, "STOP", nil, "Disconnect called")
	}

	// ---- drive to the stop point (or through all scripted attempts)
	if c.Stop != "" {
		k := c.StopAt
		var w string
		switch c.StopPhase {
		case "dialling":
			w = waitFor(func() bool { return d.dialCount() >= k })
		case "connecting":
			w = waitFor(func() bool { return hasEvent(k, "W", func(e vEvent) bool { return e.Pkt.Type == rtConnect }) })
		case "connected":
			w = waitFor(func() bool {
				for _, e := range log.snapshot() {
					if e.Conn >= k && e.Kind == "STATE" && strings.HasPrefix(e.Note, "Active") {
						return true
					}
				}
				return false
			})
		case "waiting":
			// attempt k-1 has ended: the loop is (about to be) waiting before attempt k
			w = waitFor(func() bool {
				ds := d.dialsSnapshot()
				if len(ds) < k-1 {
					return false
				}
				last := ds[k-2]
				if last.Err != nil {
					return true
				}
				for _, bc := range d.connsSnapshot() {
					if bc.id == k-1 {
						lc, pc := bc.mc.isClosed()
						return lc || pc
					}
				}
				return false
			})
		}
		if w == "stuck" {
			fail("the reconnect loop went idle before reaching attempt %d (%s): no redial after an unexpected end\n%s", k, c.StopPhase, vGoroutineDump())
		}
		if w == "inconclusive" {
			vInconclusive("C09", "stop point not reached within budget")
			d.release()
			cancel()
			return
		}
		if c.Stop == "cancel" {
			for _, e := range log.snapshot() {
				if e.Kind == "STATE" && strings.HasPrefix(e.Note, "Active") {
					// a connection had already succeeded: the caller's context no longer governs the loop
					c.Stop = ""
				}
			}
		}
		if c.Stop != "" {
			doStop()
			labels = append(labels, "c09:stop="+c.Stop+"@"+c.StopPhase)
			nontrivial = c.StopPhase != "connected"
		}
		d.release()
	} else {
		n := len(c.Attempts)
		w := waitFor(func() bool {
			// a connection beyond the scripted attempts is up (normally attempt n+1; a later one if a
			// connect timeout expired under load)
			for _, e := range log.snapshot() {
				if e.Conn > n && e.Kind == "STATE" && strings.HasPrefix(e.Note, "Active") {
					return true
				}
			}
			return false
		})
		if w == "stuck" {
			fail("the reconnect loop went idle after %d of %d scripted attempts: no redial after an unexpected end\n%s", d.dialCount(), n, vGoroutineDump())
		}
		if w == "inconclusive" {
			vInconclusive("C09", "scripted attempts not exhausted within budget")
			cancel()
			return
		}
	}

	// ---- Connect's return value
	firstOK := 0
	for _, e := range log.snapshot() {
		if e.Kind == "STATE" && strings.HasPrefix(e.Note, "Active") && firstOK == 0 {
			firstOK = e.Conn
		}
	}
	if c.Stop == "" || firstOK != 0 || c.Stop == "cancel" {
		select {
		case err := <-connRet:
			if c.Stop == "cancel" && firstOK == 0 {
				if err == nil || !errorsIs(err, context.Canceled) {
					fail("Connect returned %v after its context was cancelled before the first connection succeeded (want the context's error)", err)
				}
			} else if err != nil && !(c.Stop == "cancel") && !(c.CancelInActive && errorsIs(err, context.Canceled)) {
				fail("Connect returned %v although a connection was established", err)
			}
		case <-time.After(20 * time.Second):
			fail("Connect did not return (stop=%s phase=%s firstOK=%d)\n%s", c.Stop, c.StopPhase, firstOK, vGoroutineDump())
		}
	}

	// ---- stop semantics
	if c.Stop == "disconnect" {
		select {
		case err := <-discRet:
			if stopPanic != nil {
				fail("Disconnect panicked: %v", stopPanic)
			}
			_ = err
		case <-time.After(35 * time.Second):
			fail("Disconnect did not return\n%s", vGoroutineDump())
		}
		if c.DiscCtxDone {
			// Disconnect did not have to wait (its context was over): the loop gets the time it needs, but it must end
			if w := waitFor(loopDone); w == "stuck" {
				fail("Disconnect was called (with a context that had already ended) but the reconnect loop keeps running\n%s", vGoroutineDump())
			}
		} else if !loopDone() {
			fail("Disconnect returned but the reconnect loop goroutine is still running")
		}
	}
	if c.Stop == "cancel" {
		if w := waitFor(loopDone); w == "stuck" {
			fail("the context of the first Connect was cancelled before a connection succeeded, but the reconnect loop keeps running\n%s", vGoroutineDump())
		}
	}
	seqDone := log.add(0, "LOOP-DONE-OBSERVED", nil, "")
	if c.Stop == "" {
		// regular end of the case: Disconnect must stop the loop
		dctx, dc := context.WithTimeout(context.Background(), 30*time.Second)
		derr := cli.Disconnect(dctx)
		dc()
		if !loopDone() {
			fail("Disconnect returned (%v) but the reconnect loop goroutine is still running", derr)
		}
		seqDone = log.add(0, "LOOP-DONE-OBSERVED", nil, "")
	}
	// a few back-off periods later nothing more may have been dialled
	time.Sleep(2*base + 2*time.Millisecond)

	dials := d.dialsSnapshot()
	conns := d.connsSnapshot()
	evs := log.snapshot()
	_ = tStop
	// (4) no dial after the loop was seen finished; after the stop no dial may start unless the back-off timer can already have fired
	for _, dl := range dials {
		if dl.SeqCall > seqDone {
			fail("DialContext was called (attempt %d) after the reconnect loop had finished", dl.Attempt)
		}
	}
	if stopped {
		for _, dl := range dials {
			if dl.SeqCall > seqStop && dl.Err == nil {
				// a dial that started after the stop and produced a transport
				prevEnd := c09PrevEnd(dials, conns, dl.Attempt)
				if !prevEnd.IsZero() && tStop.Sub(prevEnd) >= c09Lower(base, max, 0) {
					// The previous attempt was already over for at least the shortest possible wait when the stop
					// took effect (also when a "connected" phase ended by itself at once): the back-off timer may
					// have fired before, or together with, the stop, and then one more dial is legitimate.
					continue
				}
				fail("attempt %d was dialled and connected after %s (#%d)", dl.Attempt, map[string]string{"cancel": "the context was cancelled", "disconnect": "Disconnect was called"}[c.Stop], seqStop)
			}
		}
	}
	// (2) never two transports open
	for _, dl := range dials {
		if len(dl.OpenAtCall) > 0 {
			fail("DialContext (attempt %d) was called while the transport(s) of connection(s) %v were still open", dl.Attempt, dl.OpenAtCall)
		}
	}
	// (3) exactly one CONNECT first on every connection, with the options given to Connect
	for _, bc := range conns {
		var first *refPacket
		nConnect := 0
		for _, e := range evs {
			if e.Conn == bc.id && e4Emitted(e) {
				if first == nil {
					first = e.Pkt
				}
				if e.Pkt.Type == rtConnect {
					nConnect++
				}
			}
		}
		if first == nil {
			continue // transport handed out, nothing written (stopped right after the dial)
		}
		if first.Type != rtConnect || nConnect != 1 {
			fail("connection c%d: first packet %v, %d CONNECT packets (want exactly one CONNECT first)", bc.id, *first, nConnect)
		}
		want := refPacket{Type: rtConnect, ProtoName: "MQTT", ProtoLevel: 4, CleanSession: c.Clean, KeepAlive: c.KeepAlive, ClientID: c09ClientID(c.IDKind)}
		if c.Will {
			want.HasWill, want.WillTopic, want.WillPayload, want.WillQoS, want.WillRetain = true, "will/t", []byte("gone"), 1, true
		}
		if c.User {
			want.HasUser, want.User, want.HasPass, want.Pass = true, "user", true, "secret"
		}
		if !refPacketsEqual(*first, want) {
			fail("connection c%d: CONNECT %s differs from the options given to Connect %s", bc.id, vJSON(*first), vJSON(want))
		}
	}
	// (1) back-off lower bounds
	j := 0
	consecutive := 0
	for i, dl := range dials {
		if i == 0 {
			continue
		}
		prev := dials[i-1]
		prevEnd := c09PrevEnd(dials, conns, dl.Attempt)
		if prevEnd.IsZero() {
			continue
		}
		// did the previous attempt reach an accepted CONNACK?
		prevOK := false
		for _, e := range evs {
			// an accepting CONNACK was made readable: the client may count this attempt as a success
			// (if the link died right after, it may also count it as a failure; the reset gives the lower bound)
			if e.Conn == prev.Attempt && e.Kind == "B" && e.Pkt != nil && e.Pkt.Type == rtConnAck && e.Pkt.Code == 0 {
				prevOK = true
			}
		}
		if prevOK {
			j = 0
		}
		lb := c09Lower(base, max, j)
		if got := dl.TCall.Sub(prevEnd); got < lb {
			fail("attempt %d was dialled %v after attempt %d ended; it is wait #%d since the last success, so at least %v (base %v, max %v) must pass", dl.Attempt, got, prev.Attempt, j, lb, base, max)
		}
		if !prevOK {
			consecutive++
		}
		j++
	}
	if consecutive >= 2 && firstOK != 0 {
		nontrivial = true
	}
	labels = append(labels, fmt.Sprintf("c09:dials=%d", minInt(len(dials), 6)), fmt.Sprintf("c09:consecutive-failures=%d", minInt(consecutive, 5)))
	for _, a := range c.Attempts {
		labels = append(labels, "c09:outcome="+a.Outcome)
	}
	vCount("C09", nontrivial, vJSON(c), labels, func() interface{} { return c })
	for _, bc := range conns {
		bc.mc.Close()
	}
	if b.protoErrs != nil {
		vFailf(tb, map[string]interface{}{"trace": log.strings(100)}, "protocol error: %v", b.protoErrs)
	}
}

func c09Lower(base, max time.Duration, j int) time.Duration {
	w := base
	for i := 0; i < j; i++ {
		w *= 2
		if w > max {
			return max
		}
	}
	if w > max && j > 0 {
		return max
	}
	return w
}

// c09PrevEnd: the moment the attempt before `attempt` was over (dial returned with an error, or
// its transport was closed for the first time), stamped before the loop can start waiting.
func c09PrevEnd(dials []vDialEv, conns []*vbConn, attempt int) time.Time {
	for _, dl := range dials {
		if dl.Attempt == attempt-1 {
			if dl.Err != nil {
				return dl.TRet
			}
			for _, bc := range conns {
				if bc.id == attempt-1 {
					bc.mc.mu.Lock()
					t := bc.mc.tClose
					bc.mc.mu.Unlock()
					return t
				}
			}
		}
	}
	return time.Time{}
}

func errorsIs(err, target error) bool {
	for e := err; e != nil; {
		if e == target {
			return true
		}
		if x, ok := e.(interface{ Is(error) bool }); ok && x.Is(target) {
			return true
		}
		u, ok := e.(interface{ Unwrap() error })
		if !ok {
			return false
		}
		e = u.Unwrap()
	}
	return false
}

func c09Gen(rt *rapid.T) c09Case {
	c := c09Case{
		BaseUs:         rapid.SampledFrom([]int{1000, 2000, 5000}).Draw(rt, "baseUs"),
		Clean:          rapid.Bool().Draw(rt, "clean"),
		KeepAlive:      rapid.SampledFrom([]int{0, 0, 60, 65535}).Draw(rt, "ka"),
		Will:           rapid.Bool().Draw(rt, "will"),
		User:           rapid.Bool().Draw(rt, "user"),
		IDKind:         rapid.SampledFrom([]int{0, 0, 1, 2, 3}).Draw(rt, "idKind"),
		PingS:          rapid.SampledFrom([]int{0, 0, 2, 100}).Draw(rt, "pingS"),
		InHandler:      rapid.Bool().Draw(rt, "inHandler"),
		DiscCtxDone:    rapid.IntRange(0, 2).Draw(rt, "discCtxDone") == 0,
		CancelInActive: rapid.IntRange(0, 3).Draw(rt, "cancelInActive") == 0,
	}
	c.MaxUs = c.BaseUs * rapid.SampledFrom([]int{1, 2, 4, 8}).Draw(rt, "maxMul")
	if rapid.IntRange(0, 9).Draw(rt, "maxBelowBase") == 0 {
		c.MaxUs = c.BaseUs / 2
	}
	outcomes := []string{"dialErr", "dialErr", "refuse", "silent", "closeAfterConnack", "closeAfterConnack", "garbage", "goSilent", "up"}
	c.Attempts = rapid.SliceOfN(rapid.Custom(func(rt *rapid.T) c09Attempt {
		a := c09Attempt{Outcome: rapid.SampledFrom(outcomes).Draw(rt, "outcome")}
		if a.Outcome == "refuse" {
			a.Code = rapid.SampledFrom([]int{1, 2, 3, 4, 5, 6, 0x80, 0x84, 255}).Draw(rt, "code")
		}
		if a.Outcome == "dialErr" {
			// the flavour of the dial error: plain, or one that has a context error in its chain (a dialler with its
			// own per-attempt timeout) although the loop's context is alive
			a.Code = rapid.SampledFrom([]int{0, 0, 1, 2}).Draw(rt, "dialErrKind")
			a.DelayUs = rapid.SampledFrom([]int{0, 0, 1500, 6000}).Draw(rt, "dialDelayUs")
		}
		return a
	}), 0, 7).Draw(rt, "attempts")
	// "up" ends the script (the connection stays): cut the list there
	for i, a := range c.Attempts {
		if a.Outcome == "up" {
			c.Attempts = c.Attempts[:i]
			break
		}
	}
	if rapid.IntRange(0, 11).Draw(rt, "longOutage") == 0 {
		// a long outage: 40..75 consecutive failures with microsecond waits (the doubling must saturate at max, not overflow)
		n := rapid.IntRange(40, 75).Draw(rt, "outageLen")
		c.Attempts = nil
		for i := 0; i < n; i++ {
			c.Attempts = append(c.Attempts, c09Attempt{Outcome: "dialErr"})
		}
		c.BaseUs = rapid.SampledFrom([]int{1, 2, 1000}).Draw(rt, "outageBaseUs")
		c.MaxUs = rapid.SampledFrom([]int{300, 1000, 3000}).Draw(rt, "outageMaxUs")
		if c.MaxUs < c.BaseUs {
			c.MaxUs = c.BaseUs
		}
		return c
	}
	switch rapid.IntRange(0, 4).Draw(rt, "stop") {
	case 0, 1:
		c.Stop = "disconnect"
	case 2:
		c.Stop = "cancel"
	}
	if c.Stop != "" {
		c.StopAt = rapid.IntRange(1, len(c.Attempts)+1).Draw(rt, "stopAt")
		c.StopPhase = rapid.SampledFrom([]string{"dialling", "connecting", "connected", "waiting"}).Draw(rt, "phase")
		// make the phase reachable at that attempt
		outcomeAt := "up"
		if c.StopAt <= len(c.Attempts) {
			outcomeAt = c.Attempts[c.StopAt-1].Outcome
		}
		switch c.StopPhase {
		case "connecting":
			if outcomeAt == "dialErr" {
				c.StopPhase = "dialling"
			} else if c.StopAt <= len(c.Attempts) {
				c.Attempts[c.StopAt-1] = c09Attempt{Outcome: "silent"}
			} else {
				c.Attempts = append(c.Attempts, c09Attempt{Outcome: "silent"})
			}
		case "connected":
			if outcomeAt == "dialErr" || outcomeAt == "refuse" || outcomeAt == "silent" {
				c.StopPhase = "dialling"
			}
		case "waiting":
			if c.StopAt == 1 {
				c.StopPhase = "dialling"
			} else {
				c.BaseUs, c.MaxUs = 300000, 600000 // a long wait, so that the stop lands inside it
			}
		}
		if c.Stop == "cancel" {
			// cancellation is a stop event only before the first connection succeeded
			for i := 0; i < c.StopAt-1 && i < len(c.Attempts); i++ {
				switch c.Attempts[i].Outcome {
				case "closeAfterConnack", "garbage", "goSilent":
					c.Attempts[i] = c09Attempt{Outcome: "dialErr"}
				}
			}
			if c.StopPhase == "connected" {
				c.StopPhase = "dialling"
			}
		}
		if c.StopPhase == "waiting" {
			// keep earlier waits short in number: with a 300 ms base every failed attempt costs that much
			if c.StopAt > 3 {
				c.StopAt = 3
			}
		}
	}
	return c
}

func TestVerifC09_Lifecycle(t *testing.T) {
	vRun(t, "C09", vOpts{CurFile: true, ReplayReps: 5}, c09Gen, c09Run)
}
