//go:build verif

package mqtt

// E2 — in-memory transport with a synchronous peer, and the global event log of a case.

import (
	"errors"
	"fmt"
	"io"
	"net"
	"runtime"
	"sync"
	"sync/atomic"
	"time"
)

// ---------------------------------------------------------------------------
// event log: one timeline per case

type vEvent struct {
	Seq  int64      `json:"seq"`
	Conn int        `json:"conn"`
	Kind string     `json:"kind"`
	Pkt  *refPacket `json:"pkt,omitempty"`
	Note string     `json:"note,omitempty"`
	N    int        `json:"n,omitempty"`
}

func (e vEvent) String() string {
	s := fmt.Sprintf("#%d c%d %s", e.Seq, e.Conn, e.Kind)
	if e.Pkt != nil {
		s += " " + e.Pkt.String()
	}
	if e.Note != "" {
		s += " " + e.Note
	}
	return s
}

type vLog struct {
	mu  sync.Mutex
	seq int64
	ev  []vEvent
}

func (l *vLog) add(conn int, kind string, pkt *refPacket, note string) int64 {
	l.mu.Lock()
	defer l.mu.Unlock()
	l.seq++
	l.ev = append(l.ev, vEvent{Seq: l.seq, Conn: conn, Kind: kind, Pkt: pkt, Note: note})
	return l.seq
}

func (l *vLog) snapshot() []vEvent {
	l.mu.Lock()
	defer l.mu.Unlock()
	return append([]vEvent{}, l.ev...)
}

func (l *vLog) lastSeq() int64 {
	l.mu.Lock()
	defer l.mu.Unlock()
	return l.seq
}

func (l *vLog) strings(max int) []string {
	ev := l.snapshot()
	if max > 0 && len(ev) > max {
		ev = ev[len(ev)-max:]
	}
	out := make([]string, len(ev))
	for i, e := range ev {
		out[i] = e.String()
	}
	return out
}

// ---------------------------------------------------------------------------
// transport

type memPeer interface {
	// clientWrote is called synchronously inside Write with the bytes of that call.
	// A non-nil error makes Write fail (the bytes count as not delivered).
	clientWrote(c *memConn, p []byte) error
	// clientClosed is called once after the client closed the transport locally.
	clientClosed(c *memConn)
}

var errMemBrokenPipe = errors.New("verif transport: write on a connection closed by the peer")

type memConn struct {
	id   int
	log  *vLog
	peer memPeer

	mu          sync.Mutex
	cond        *sync.Cond
	rbuf        []byte
	peerClosed  bool
	localClosed bool
	maxRead     int // 0 = unlimited; otherwise at most this many bytes per Read
	// peerEOF: the peer has finished sending (half-close): Read reports io.EOF once the buffer is drained, writes still work.
	// eofWithData: the Read that drains the buffer reports io.EOF together with the last bytes (io.Reader allows it; TLS does it)
	peerEOF     bool
	eofWithData bool
	// flavour: how this transport reports its own closure, as real transports differ (0 = like net.Pipe):
	//   bit 0: Read/Write after a local Close fail with an error wrapping net.ErrClosed ("use of closed network connection")
	//   bit 1: a failing Write reports an error that wraps io.EOF
	//   bit 2: the second and later Close calls return an error (net.Conn does)
	//   bit 3: the transport also offers CloseWrite() like *net.TCPConn / *tls.Conn (see memConnCW)
	//   bit 4: Close takes a while (1.5 ms) before it takes effect, as a TLS or WebSocket closing handshake does
	flavour int
	nClose  int32
	wClosed int32 // CloseWrite was called

	wmu sync.Mutex

	// non-thread-safe mode (C10): no lock of its own, overlapping writes are detected
	unsafeMode bool
	inWrite    int32
	overlaps   int32
	yieldEvery int

	// blocking-write mode (C11): Write blocks until the transport is closed
	blockWrites int32

	closedCh  chan struct{}
	closeOnce sync.Once

	maxReadReq int64 // largest len(p) ever passed to Read (C06: allocation bound)
	tClose     time.Time
}

func newMemConn(id int, log *vLog, peer memPeer) *memConn {
	c := &memConn{id: id, log: log, peer: peer, closedCh: make(chan struct{})}
	c.cond = sync.NewCond(&c.mu)
	return c
}

func (c *memConn) Read(p []byte) (int, error) {
	for {
		old := atomic.LoadInt64(&c.maxReadReq)
		if int64(len(p)) <= old || atomic.CompareAndSwapInt64(&c.maxReadReq, old, int64(len(p))) {
			break
		}
	}
	c.mu.Lock()
	defer c.mu.Unlock()
	for len(c.rbuf) == 0 && !c.peerClosed && !c.peerEOF && !c.localClosed {
		c.cond.Wait()
	}
	if c.localClosed {
		return 0, c.closedErr("read")
	}
	if len(c.rbuf) > 0 {
		n := len(p)
		if n > len(c.rbuf) {
			n = len(c.rbuf)
		}
		if c.maxRead > 0 && n > c.maxRead {
			n = c.maxRead
		}
		copy(p, c.rbuf[:n])
		c.rbuf = c.rbuf[n:]
		if c.eofWithData && len(c.rbuf) == 0 && (c.peerEOF || c.peerClosed) {
			return n, io.EOF
		}
		return n, nil
	}
	return 0, io.EOF
}

func (c *memConn) Write(p []byte) (int, error) {
	if c.unsafeMode {
		if !atomic.CompareAndSwapInt32(&c.inWrite, 0, 1) {
			atomic.AddInt32(&c.overlaps, 1)
			c.log.add(c.id, "WRITE-OVERLAP", nil, "two Transport.Write calls overlapped in time")
			// deliver the bytes anyway so that the framer sees what a real stream would carry
		} else {
			defer atomic.StoreInt32(&c.inWrite, 0)
		}
		// widen the window: a real socket write is not instantaneous
		for i := 0; i < c.yieldEvery; i++ {
			runtime.Gosched()
		}
	} else {
		c.wmu.Lock()
		defer c.wmu.Unlock()
	}
	if atomic.LoadInt32(&c.wClosed) != 0 {
		return 0, c.closedErr("write")
	}
	if atomic.LoadInt32(&c.blockWrites) != 0 {
		// a write that cannot make progress: it ends only when the link does
		c.mu.Lock()
		for !c.localClosed && !c.peerClosed {
			c.cond.Wait()
		}
		lc := c.localClosed
		c.mu.Unlock()
		if rec, ok := c.peer.(interface{ clientWroteOnClosed(*memConn, []byte) }); ok {
			rec.clientWroteOnClosed(c, p)
		}
		if lc {
			return 0, io.ErrClosedPipe
		}
		return 0, errMemBrokenPipe
	}
	c.mu.Lock()
	lc, pc := c.localClosed, c.peerClosed
	c.mu.Unlock()
	if lc || pc {
		// the bytes were still handed to the transport: let the peer record them as emitted-but-lost
		if rec, ok := c.peer.(interface{ clientWroteOnClosed(*memConn, []byte) }); ok {
			rec.clientWroteOnClosed(c, p)
		}
		if lc {
			return 0, c.closedErr("write")
		}
		return 0, c.writeErr(errMemBrokenPipe)
	}
	if err := c.peer.clientWrote(c, p); err != nil {
		return 0, c.writeErr(err)
	}
	return len(p), nil
}

func (c *memConn) closedErr(op string) error {
	if c.flavour&1 != 0 {
		return fmt.Errorf("verif transport: %s: %w", op, net.ErrClosed)
	}
	return io.ErrClosedPipe
}

func (c *memConn) writeErr(err error) error {
	if c.flavour&2 != 0 {
		return fmt.Errorf("%v: %w", err, io.EOF)
	}
	return err
}

func (c *memConn) Close() error {
	n := atomic.AddInt32(&c.nClose, 1)
	if c.flavour&16 != 0 && n == 1 {
		time.Sleep(1500 * time.Microsecond)
	}
	c.mu.Lock()
	if c.localClosed {
		c.mu.Unlock()
		if n > 1 && c.flavour&4 != 0 {
			return fmt.Errorf("verif transport: close: %w", net.ErrClosed)
		}
		return nil
	}
	c.localClosed = true
	c.tClose = time.Now()
	// logged before anybody can observe the closure, so that every reaction to it (state callback, redial) has a later seq
	c.log.add(c.id, "CLOSE-LOCAL", nil, "")
	c.cond.Broadcast()
	c.mu.Unlock()
	c.closeOnce.Do(func() { close(c.closedCh) })
	c.peer.clientClosed(c)
	return nil
}

// peerSend makes bytes available to the client's reader. Bytes sent after either side
// closed are discarded (returns false).
func (c *memConn) peerSend(b []byte) bool {
	c.mu.Lock()
	defer c.mu.Unlock()
	if c.peerClosed || c.peerEOF || c.localClosed {
		return false
	}
	c.rbuf = append(c.rbuf, b...)
	c.cond.Broadcast()
	return true
}

// peerClose ends the stream from the broker side: buffered bytes are still readable,
// then Read returns io.EOF. With discard the buffered bytes are dropped first.
func (c *memConn) peerClose(discard bool) {
	c.mu.Lock()
	already := c.peerClosed
	c.peerClosed = true
	if discard {
		c.rbuf = nil
	}
	if c.tClose.IsZero() {
		c.tClose = time.Now()
	}
	if !already {
		c.log.add(c.id, "CLOSE-PEER", nil, "")
	}
	c.cond.Broadcast()
	c.mu.Unlock()
}

// peerHalfClose: the peer has sent everything it will ever send; what is buffered stays readable, then io.EOF.
func (c *memConn) peerHalfClose() {
	c.mu.Lock()
	if !c.peerEOF {
		c.peerEOF = true
		c.log.add(c.id, "EOF-PEER", nil, "")
	}
	c.cond.Broadcast()
	c.mu.Unlock()
}

func (c *memConn) isClosed() (local, peer bool) {
	c.mu.Lock()
	defer c.mu.Unlock()
	return c.localClosed, c.peerClosed
}

func (c *memConn) unread() int {
	c.mu.Lock()
	defer c.mu.Unlock()
	return len(c.rbuf)
}

// memConnCW is a memConn that also has CloseWrite (TCP and TLS connections do): after it, writes fail and the peer
// would see EOF, but the transport is not closed - reads go on until Close.
type memConnCW struct{ *memConn }

func (c memConnCW) CloseWrite() error {
	c.log.add(c.id, "CLOSE-WRITE", nil, "")
	atomic.StoreInt32(&c.wClosed, 1)
	return nil
}

// asTransport returns the value to put into BaseClient.Transport for this connection's flavour.
func (c *memConn) asTransport() io.ReadWriteCloser {
	if c.flavour&8 != 0 {
		return memConnCW{c}
	}
	return c
}
