//go:build verif

package mqtt

// C17 — the registered handler keeps receiving messages on every later connection.

import (
	"context"
	"fmt"
	"strings"
	"sync"
	"testing"
	"time"

	"pgregory.net/rapid"
)

func c17Gen(rt *rapid.T) e4Case {
	c := e4Case{Cfg: e4GenConfig(rt)}
	c.Cfg.StateHandle = rapid.IntRange(0, 3).Draw(rt, "stateHandle") == 0
	type raw struct{ Kind, QoS, Extra int }
	raws := rapid.SliceOfN(rapid.Custom(func(rt *rapid.T) raw {
		return raw{rapid.IntRange(0, 9).Draw(rt, "kind"), rapid.IntRange(0, 2).Draw(rt, "qos"), rapid.SampledFrom([]int{0, 0, 20, 200, 1000}).Draw(rt, "extra")}
	}), 1, 14).Draw(rt, "steps")
	connectAt := rapid.IntRange(0, 2).Draw(rt, "connectAt")
	connected := false
	nh, idx := 0, 0
	for i, r := range raws {
		if !connected && i >= connectAt {
			c.Steps = append(c.Steps, e4Step{Kind: "connect"})
			connected = true
		}
		switch {
		case r.Kind <= 2:
			nh++
			hn := nh
			if r.Extra == 1000 {
				hn = 100 + nh // one-shot handler that replaces itself (by handler 200+nh) inside its callback
			}
			if connected && (r.Extra == 200 || r.Extra == 20) && hn < 100 {
				// the registration is held up inside Handle while the connection is being replaced; afterwards a
				// message arrives on the new connection
				c.Steps = append(c.Steps, e4Step{Kind: "settle"}, e4Step{Kind: "handleStalled", Extra: hn, ID: 300 + 900*r.QoS, Retain: r.Extra == 20 && r.QoS != 2, Topic: map[bool]string{true: "stats"}[r.Extra == 20 && r.QoS == 2]},
					e4Step{Kind: "settle"}, e4Step{Kind: "inject", QoS: r.QoS})
			} else {
				c.Steps = append(c.Steps, e4Step{Kind: "handle", Extra: hn})
			}
		case r.Kind <= 4:
			if connected {
				c.Steps = append(c.Steps, e4Step{Kind: "cutNow"})
				if r.Extra > 0 {
					c.Steps = append(c.Steps, e4Step{Kind: "sleep", Extra: r.Extra})
				}
			}
		case r.Kind == 5:
			if connected {
				c.Steps = append(c.Steps, e4Step{Kind: "settle"})
			}
		case r.Kind <= 7:
			if connected {
				c.Steps = append(c.Steps, e4Step{Kind: "settle"}, e4Step{Kind: "inject", QoS: r.QoS, Retain: r.Extra == 200})
			}
		case r.Kind == 8:
			idx++
			c.Steps = append(c.Steps, e4Step{Kind: "pub", QoS: r.QoS, Topic: "t/a", Idx: idx})
		default:
			c.Steps = append(c.Steps, e4Step{Kind: "yield"})
		}
	}
	if !connected {
		c.Steps = append(c.Steps, e4Step{Kind: "connect"})
	}
	c.Inject = rapid.SliceOfN(rapid.Custom(func(rt *rapid.T) e4Inject {
		return e4Inject{Conn: rapid.IntRange(1, 6).Draw(rt, "conn"), QoS: rapid.IntRange(0, 2).Draw(rt, "qos"), Dup: rapid.IntRange(0, 2).Draw(rt, "dup") == 0, ReuseID: rapid.IntRange(0, 2).Draw(rt, "reuseID") == 0}
	}), 0, 8).Draw(rt, "inject")
	c.Faults = e4GenFaults(rt, e4GenOpts{MaxFaults: 2, FaultKinds: []string{"cut", "dialErr"}, MaxConn: 3})
	return c
}

func c17HandlerNo(note string) int {
	var n int
	fmt.Sscanf(note, "handler=%d", &n)
	return n
}

// c17Oracle: every injected message on a connection whose marker was acknowledged is received
// by the handler in force (or one being registered concurrently), and by nobody else.
func c17Oracle(r *e4Result) (msg string, judged int, laterConn int) {
	if r.ReaderStuck != "" {
		return r.ReaderStuck, 0, 0
	}
	if r.Stuck {
		// nothing is delivered to anybody by a client that has stopped: Connect not returning, a client call never
		// returning, or 3 s of complete silence with accepted work undone on a reachable broker
		return "the client stopped making progress (no handler can receive anything any more): " + e4Undone(r) + "; " + firstLine(r.Dump), 0, 0
	}
	type hcall struct {
		n          int
		start, end int64
	}
	var calls []hcall
	var cur *hcall
	for _, e := range r.Log {
		switch e.Kind {
		case "HANDLE-START":
			calls = append(calls, hcall{n: c17HandlerNo(e.Note), start: e.Seq, end: 1 << 62})
			cur = &calls[len(calls)-1]
		case "HANDLE":
			// close the matching call (calls from the runner and from inside a handler may interleave)
			n := c17HandlerNo(e.Note)
			for i := len(calls) - 1; i >= 0; i-- {
				if calls[i].n == n && calls[i].end == 1<<62 {
					calls[i].end = e.Seq
					break
				}
			}
			_ = cur
		}
	}
	// markers acknowledged: conn -> list of (marker B seq, ack W seq)
	type span struct{ from, to int64 }
	markerSent := map[string]int64{}
	judgedSpan := map[int][]span{}
	lastMarkerFrom := map[int]int64{}
	for _, e := range r.Log {
		if e.Pkt == nil {
			continue
		}
		if e.Kind == "B" && e.Pkt.Type == rtPublish && e.Pkt.Topic == vSyncTopic {
			markerSent[fmt.Sprintf("%d/%d", e.Conn, e.Pkt.ID)] = e.Seq
		}
		if e.Kind == "W" && e.Pkt.Type == rtPubAck && e.Pkt.ID > vSyncIDBase {
			if s, ok := markerSent[fmt.Sprintf("%d/%d", e.Conn, e.Pkt.ID)]; ok {
				judgedSpan[e.Conn] = append(judgedSpan[e.Conn], span{lastMarkerFrom[e.Conn], s})
				lastMarkerFrom[e.Conn] = s
				_ = e
			}
		}
	}
	// handled events by message tag
	type hev struct {
		seq int64
		n   int
	}
	handled := map[string][]hev{}
	for _, h := range r.Handled {
		tag := string(h.Pkt.Payload)
		handled[tag] = append(handled[tag], hev{h.Seq, h.Handler})
	}
	firstConn := 0
	for _, e := range r.Log {
		if e.Kind == "B" && e.Pkt != nil && e.Pkt.Type == rtConnAck && e.Pkt.Code == 0 && firstConn == 0 {
			firstConn = e.Conn
		}
	}
	for _, e := range r.Log {
		if e.Kind != "B" || e.Pkt == nil || e.Pkt.Type != rtPublish || !strings.HasPrefix(string(e.Pkt.Payload), "in") {
			continue
		}
		// judged only if the marker that follows it in the same stream was acknowledged: the message was
		// processed before that PUBACK was written
		markerID := 0
		for _, l := range r.Log {
			if l.Seq > e.Seq && l.Conn == e.Conn && l.Kind == "B" && l.Pkt != nil && l.Pkt.Type == rtPublish && l.Pkt.Topic == vSyncTopic {
				markerID = l.Pkt.ID
				break
			}
		}
		var procBy int64
		for _, l := range r.Log {
			if markerID != 0 && l.Kind == "W" && l.Conn == e.Conn && l.Pkt.Type == rtPubAck && l.Pkt.ID == markerID && l.Seq > e.Seq {
				procBy = l.Seq
				break
			}
		}
		if procBy == 0 {
			continue
		}
		judged++
		if e.Conn != firstConn {
			laterConn++
		}
		tag := string(e.Pkt.Payload)
		// A Handle call X may be the one in force unless another call Y started after X had returned and
		// itself returned before the message became readable (then X is definitely superseded). Calls
		// that overlap each other, or that overlap the arrival of the message, can win either way.
		inForce := 0 // some candidate had returned before the message became readable
		acceptable := map[int]bool{}
		for _, x := range calls {
			if x.start >= procBy {
				continue
			}
			superseded := false
			for _, y := range calls {
				if y.start > x.end && y.end < e.Seq {
					superseded = true
					break
				}
			}
			if superseded {
				continue
			}
			acceptable[x.n] = true
			if x.end < e.Seq {
				inForce = x.n
			}
		}
		got := handled[tag]
		if len(acceptable) == 0 {
			continue // no handler registered at all: nothing is promised
		}
		if inForce == 0 && len(got) == 0 {
			continue // only a concurrent registration: it may have come too late
		}
		if len(got) == 0 {
			return fmt.Sprintf("inbound message %q (q%d) on connection c%d (#%d) was acknowledged but never reached a handler; handler %d was registered", tag, e.Pkt.QoS, e.Conn, e.Seq, inForce), judged, laterConn
		}
		for _, g := range got {
			if !acceptable[g.n] {
				return fmt.Sprintf("inbound message %q on connection c%d (#%d) went to handler %d, but the handler in force was %d (acceptable %v)", tag, e.Conn, e.Seq, g.n, inForce, acceptable), judged, laterConn
			}
		}
		if e.Pkt.QoS == 0 && len(got) != 1 {
			return fmt.Sprintf("QoS0 inbound message %q handed over %d times", tag, len(got)), judged, laterConn
		}
	}
	return "", judged, laterConn
}

func TestVerifC17_Handler(t *testing.T) {
	vRun(t, "C17", vOpts{CurFile: true, ReplayReps: 25}, c17Gen, func(tb rapid.TB, c e4Case) {
		var judged, later int
		e4Check(tb, "C17", c, func(r *e4Result) string {
			msg, j, l := c17Oracle(r)
			judged, later = j, l
			return msg
		}, func(r *e4Result) (bool, []string) {
			_, j, l := c17Oracle(r)
			labels := []string{fmt.Sprintf("c17:judged=%d", minInt(j, 5)), fmt.Sprintf("c17:on-later-conn=%d", minInt(l, 3))}
			return l >= 1, labels
		})
		_, _ = judged, later
	})
}

func firstLine(s string) string {
	if i := strings.IndexByte(s, '\n'); i >= 0 {
		return s[:i]
	}
	return s
}

// ---------------------------------------------------------------------------
// a RetryClient driven by hand: the application switches to a new connection while the previous one is still open

type c17SwitchCase struct {
	QoS        []int `json:"qos"`        // inbound messages, alternating old / new connection after the switch
	HandleLate bool  `json:"handleLate"` // Handle is called after the first Connect instead of before SetClient
	Rehandle   bool  `json:"rehandle"`   // Handle is called once more after the switch
}

func TestVerifC17_ManualSwitch(t *testing.T) {
	vRun(t, "C17", vOpts{CurFile: true}, func(rt *rapid.T) c17SwitchCase {
		return c17SwitchCase{QoS: rapid.SliceOfN(rapid.IntRange(0, 2), 2, 6).Draw(rt, "qos"), HandleLate: rapid.Bool().Draw(rt, "handleLate"), Rehandle: rapid.Bool().Draw(rt, "rehandle")}
	}, func(tb rapid.TB, c c17SwitchCase) {
		r1, r2 := newBaseRig(), newBaseRig()
		defer r1.shutdown()
		defer r2.shutdown()
		var mu sync.Mutex
		got := map[string]int{}
		h := func(n int) Handler {
			return HandlerFunc(func(m *Message) {
				if m.Topic == vSyncTopic {
					return
				}
				mu.Lock()
				got[string(m.Payload)] = n
				mu.Unlock()
			})
		}
		rc := &RetryClient{}
		ctx, cancel := context.WithTimeout(context.Background(), 30*time.Second)
		defer cancel()
		defer func() { _ = rc.Disconnect(ctx) }() // ends the client's task goroutine
		if !c.HandleLate {
			rc.Handle(h(1))
		}
		rc.SetClient(ctx, r1.cli)
		if _, err := rc.Connect(ctx, "verif-switch"); err != nil {
			tb.Fatalf("harness: Connect 1: %v", err)
		}
		if c.HandleLate {
			rc.Handle(h(1))
		}
		send := func(r *baseRig, tag string, q, id int) {
			pk := refPacket{Type: rtPublish, Topic: "in/t", QoS: q, Payload: []byte(tag)}
			if q > 0 {
				pk.ID = id
			}
			r.peer.send(pk)
			if q == 2 {
				r.peer.send(refPacket{Type: rtPubRel, ID: id})
			}
		}
		send(r1, "before", 1, 7)
		if !r1.peer.sync(20 * time.Second) {
			vFailf(tb, r1.log.strings(30), "first connection stopped processing")
		}
		// the switch: the old connection stays open
		rc.SetClient(ctx, r2.cli)
		if _, err := rc.Connect(ctx, "verif-switch"); err != nil {
			tb.Fatalf("harness: Connect 2: %v", err)
		}
		want := 1
		if c.Rehandle {
			rc.Handle(h(2))
			want = 2
		}
		var tags []string
		for i, q := range c.QoS {
			tag := fmt.Sprintf("after%d", i)
			tags = append(tags, tag)
			if i%2 == 0 {
				send(r1, tag, q, 100+i) // still arriving on the previous connection
			} else {
				send(r2, tag, q, 100+i)
			}
		}
		ok1, ok2 := r1.peer.sync(20*time.Second), r2.peer.sync(20*time.Second)
		vCount("C17", true, vJSON(c), []string{"manual-switch"}, func() interface{} { return c })
		if !ok1 || !ok2 {
			vFailf(tb, map[string]interface{}{"old": r1.log.strings(30), "new": r2.log.strings(30)}, "a connection stopped processing after the switch (old ok=%v, new ok=%v)", ok1, ok2)
		}
		mu.Lock()
		defer mu.Unlock()
		if got["before"] != 1 {
			vFailf(tb, nil, "the message before the switch went to handler %d, want 1", got["before"])
		}
		for i, tag := range tags {
			n, okk := got[tag]
			where := "new"
			if i%2 == 0 {
				where = "previous (still open)"
			}
			if !okk {
				vFailf(tb, map[string]interface{}{"old": r1.log.strings(30), "new": r2.log.strings(30)}, "message %q (q%d) arriving on the %s connection after SetClient was acknowledged but reached no handler", tag, c.QoS[i], where)
			}
			// on the previous connection the handler in force is the one it had when it was replaced, or the current one
			if n != want && !(i%2 == 0 && n == 1) {
				vFailf(tb, nil, "message %q on the %s connection went to handler %d, want %d", tag, where, n, want)
			}
		}
	})
}
