//go:build verif

package mqtt

// C13 — keep-alive detects a silent peer and only a silent peer.
// Part 1: KeepAlive against a scripted Client. (Part 2, the reconnecting client, is in c13b.go.)

import (
	"context"
	"errors"
	"fmt"
	"sync"
	"testing"
	"time"

	"pgregory.net/rapid"
)

type c13Outcome struct {
	Kind    string `json:"kind"` // ok | never | fail
	DelayUs int    `json:"delayUs,omitempty"`
}

type c13Cancel struct {
	At    int    `json:"at"`    // 0-based ping index
	Phase string `json:"phase"` // before | during | after
	// Deadline: the parent context ends because its own deadline passes (Err() == context.DeadlineExceeded), not by cancel
	Deadline bool `json:"deadline,omitempty"`
}

type c13Case struct {
	IntervalUs int          `json:"intervalUs"`
	TimeoutUs  int          `json:"timeoutUs"`
	Outcomes   []c13Outcome `json:"outcomes"`
	Cancel     *c13Cancel   `json:"cancel,omitempty"`
}

var errC13Ping = errors.New("verif: scripted ping failure")

type c13Mock struct {
	mu           sync.Mutex
	c            c13Case
	cancelParent func()
	parentErr    error
	starts       []time.Time
	blocked      []time.Duration
	deadlines    []time.Time // deadline of the context each ping was given
	returns      []time.Time // when each ping returned
	cancelledAt  int         // ping index during/around which the parent was cancelled, -1 = never
	extraPing    chan struct{}
	term         int // index of the ping after which KeepAlive must return (-1: none)
	overrun      chan int
}

func (m *c13Mock) Connect(context.Context, string, ...ConnectOption) (bool, error) { return false, nil }
func (m *c13Mock) Disconnect(context.Context) error                                { return nil }
func (m *c13Mock) Publish(context.Context, *Message) error                         { return nil }
func (m *c13Mock) Subscribe(context.Context, ...Subscription) ([]Subscription, error) {
	return nil, nil
}
func (m *c13Mock) Unsubscribe(context.Context, ...string) error { return nil }
func (m *c13Mock) Handle(Handler)                               {}

func (m *c13Mock) Ping(ctx context.Context) error {
	m.mu.Lock()
	k := len(m.starts)
	m.starts = append(m.starts, time.Now())
	m.blocked = append(m.blocked, 0)
	dl, _ := ctx.Deadline()
	m.deadlines = append(m.deadlines, dl)
	c := m.c
	term := m.term
	m.mu.Unlock()
	if term >= 0 && k > term {
		select {
		case m.overrun <- k:
		default:
		}
	}
	if c.Cancel != nil && c.Cancel.At == k && c.Cancel.Phase == "before" {
		m.markCancel(k)
	}
	m.mu.Lock()
	parentCancelled := m.cancelledAt >= 0
	m.mu.Unlock()
	if parentCancelled {
		// like the real client: a request on a cancelled context fails with that context's error.
		// (Only the parent's cancellation counts: the per-ping deadline must not turn an answered
		// ping into a late one when the machine is busy - the script decides the outcome.)
		return wrapError(m.parentErr, "waiting PINGRESP")
	}
	if k >= len(c.Outcomes) {
		// beyond the script: everything is answered; tell the harness that KeepAlive is still going
		select {
		case m.extraPing <- struct{}{}:
		default:
		}
		return nil
	}
	o := c.Outcomes[k]
	switch o.Kind {
	case "ok":
		if o.DelayUs > 0 {
			// an answer that takes a while (possibly longer than the interval, always far shorter than the timeout)
			if c.TimeoutUs < 1000000 {
				// short-timeout class: the script decides, the per-ping deadline must not interfere under load
				time.Sleep(time.Duration(o.DelayUs) * time.Microsecond)
			} else {
				select {
				case <-time.After(time.Duration(o.DelayUs) * time.Microsecond):
				case <-ctx.Done():
					m.noteReturn(k)
					return wrapError(ctx.Err(), "waiting PINGRESP")
				}
			}
		}
		if c.Cancel != nil && c.Cancel.At == k && c.Cancel.Phase == "after" {
			m.markCancel(k)
		}
		m.noteReturn(k)
		return nil
	case "fail":
		return wrapError(errC13Ping, "sending PINGREQ")
	default: // never
		t0 := time.Now()
		if c.Cancel != nil && c.Cancel.At == k && c.Cancel.Phase == "during" {
			m.markCancel(k)
		}
		<-ctx.Done()
		m.mu.Lock()
		m.blocked[k] = time.Since(t0)
		m.mu.Unlock()
		return wrapError(ctx.Err(), "waiting PINGRESP")
	}
}

func (m *c13Mock) noteReturn(k int) {
	m.mu.Lock()
	for len(m.returns) <= k {
		m.returns = append(m.returns, time.Time{})
	}
	m.returns[k] = time.Now()
	m.mu.Unlock()
}

func (m *c13Mock) markCancel(k int) {
	m.mu.Lock()
	if m.cancelledAt < 0 {
		m.cancelledAt = k
	}
	m.mu.Unlock()
	m.cancelParent()
}

func c13Run(tb rapid.TB, c c13Case) {
	var ctx context.Context
	var cancel func()
	parentErr := context.Canceled
	if c.Cancel != nil && c.Cancel.Deadline {
		// a parent whose own deadline passes at the scripted moment (a Context of the harness' own)
		mc := &c19ManualCtx{done: make(chan struct{})}
		ctx, cancel, parentErr = mc, mc.expire, context.DeadlineExceeded
	} else {
		cctx, cc := context.WithCancel(context.Background())
		ctx, cancel = cctx, cc
	}
	defer cancel()
	m := &c13Mock{c: c, cancelParent: cancel, parentErr: parentErr, cancelledAt: -1, extraPing: make(chan struct{}, 1), term: -1, overrun: make(chan int, 1)}
	interval := time.Duration(c.IntervalUs) * time.Microsecond
	timeout := time.Duration(c.TimeoutUs) * time.Microsecond
	// reference: index of the terminating ping and the class of the result
	term := -1
	class := ""
	kn := -1 // first ping whose own outcome ends the loop
	for k, o := range c.Outcomes {
		if o.Kind != "ok" {
			kn = k
			break
		}
	}
	kc := -1 // ping that fails because the parent context was cancelled
	if c.Cancel != nil {
		kc = c.Cancel.At
		if c.Cancel.Phase == "after" {
			kc = c.Cancel.At + 1
		}
	}
	switch {
	case kc >= 0 && (kn < 0 || kc <= kn):
		term, class = kc, "cancel"
	case kn >= 0:
		term = kn
		class = map[string]string{"never": "timeout", "fail": "fail"}[c.Outcomes[kn].Kind]
	}
	m.term = term
	t0 := time.Now()
	retCh := make(chan error, 1)
	go func() { retCh <- KeepAlive(ctx, m, interval, timeout) }()

	fail := func(format string, args ...interface{}) {
		cancel()
		m.mu.Lock()
		tr := map[string]interface{}{"pings": len(m.starts), "cancelledAt": m.cancelledAt}
		m.mu.Unlock()
		vFailf(tb, tr, format, args...)
	}
	var ret error
	if term < 0 {
		// every scripted ping is answered: KeepAlive must still be pinging after the script
		select {
		case <-m.extraPing:
		case ret = <-retCh:
			fail("KeepAlive returned %v although every ping was answered in time", ret)
		case <-time.After(20 * time.Second):
			fail("KeepAlive stopped pinging although every ping was answered (no ping %d within 20 s)", len(c.Outcomes))
		}
		select {
		case ret = <-retCh:
			fail("KeepAlive returned %v although every ping was answered in time", ret)
		default:
		}
		m.markCancel(len(c.Outcomes) + 1)
		class = "cancel"
	}
	select {
	case ret = <-retCh:
	case k := <-m.overrun:
		fail("KeepAlive sent ping %d although ping %d ended with class %s: it must have returned", k, term, class)
	case <-time.After(20 * time.Second):
		fail("KeepAlive did not return 20 s after the terminating outcome (%s at ping %d)\n%s", class, term, vGoroutineDump())
	}
	m.mu.Lock()
	starts := append([]time.Time{}, m.starts...)
	blocked := append([]time.Duration{}, m.blocked...)
	deadlines := append([]time.Time{}, m.deadlines...)
	returns := append([]time.Time{}, m.returns...)
	m.mu.Unlock()
	_ = blocked

	if ret == nil {
		fail("KeepAlive returned nil")
	}
	if term >= 0 && len(starts) != term+1 {
		fail("KeepAlive made %d pings, expected exactly %d (it must return right after the first failing ping, class %s)", len(starts), term+1, class)
	}
	switch class {
	case "cancel":
		if !errors.Is(ret, parentErr) || errors.Is(ret, ErrPingTimeout) {
			fail("parent context ended (%v), KeepAlive returned %v (want the context's error, not ErrPingTimeout)", parentErr, ret)
		}
	case "timeout":
		if !errors.Is(ret, ErrPingTimeout) {
			fail("ping %d was never answered, KeepAlive returned %v (want ErrPingTimeout)", term, ret)
		}
		// The ping's context is created after tick #term+1, which cannot come before t0+(term+1)*interval, so its
		// deadline is at least that plus the timeout (a pure lower bound: delays only make the deadline later).
		if min := t0.Add(time.Duration(term+1)*interval + timeout); deadlines[term].IsZero() || deadlines[term].Before(min) {
			fail("the unanswered ping %d was given a deadline %v after KeepAlive started; with interval %v and timeout %v it cannot be earlier than %v", term, deadlines[term].Sub(t0), interval, timeout, min.Sub(t0))
		}
	case "fail":
		if !errors.Is(ret, errC13Ping) || errors.Is(ret, ErrPingTimeout) {
			fail("ping %d failed at once with an error, KeepAlive returned %v (want that error, not ErrPingTimeout)", term, ret)
		}
	}
	// every ping gets the full timeout: its context is created after the previous ping returned, so its deadline
	// cannot be earlier than that return plus the timeout (a stale tick must not shorten it)
	for k := 1; k < len(deadlines); k++ {
		if k-1 < len(returns) && !returns[k-1].IsZero() && !deadlines[k].IsZero() {
			if min := returns[k-1].Add(timeout); deadlines[k].Before(min) {
				fail("ping %d was given a deadline %v before (return of ping %d + timeout %v): it does not get the full timeout", k, min.Sub(deadlines[k]), k-1, timeout)
			}
		}
	}
	for k, s := range starts {
		if min := time.Duration(k+1) * interval; s.Sub(t0) < min {
			fail("ping %d started %v after KeepAlive was called, before %d intervals of %v had elapsed", k, s.Sub(t0), k+1, interval)
		}
	}
	labels := []string{"ka:" + class}
	if c.Cancel != nil {
		labels = append(labels, "ka:cancel-"+c.Cancel.Phase)
		if c.Cancel.Deadline {
			labels = append(labels, "ka:parent-deadline")
		}
	}
	nontrivial := len(starts) >= 3 || (c.Cancel != nil && c.Cancel.Phase == "during" && class == "cancel")
	vCount("C13", nontrivial, vJSON(c), labels, func() interface{} { return c })
}

func c13Gen(rt *rapid.T) c13Case {
	c := c13Case{IntervalUs: rapid.IntRange(300, 3000).Draw(rt, "intervalUs")}
	n := rapid.IntRange(0, 6).Draw(rt, "n")
	for i := 0; i < n; i++ {
		c.Outcomes = append(c.Outcomes, c13Outcome{Kind: "ok", DelayUs: rapid.SampledFrom([]int{0, 0, 50, 300, 2000, 7000}).Draw(rt, "delay")})
	}
	switch rapid.IntRange(0, 3).Draw(rt, "end") {
	case 0:
		c.Outcomes = append(c.Outcomes, c13Outcome{Kind: "never"})
	case 1:
		c.Outcomes = append(c.Outcomes, c13Outcome{Kind: "fail"})
	}
	// the mock decides the outcome, so the timeout only matters for "never": keep it short there,
	// and far away otherwise so that load cannot turn an immediate failure into a timeout
	c.TimeoutUs = 2000000
	if l := len(c.Outcomes); l > 0 && c.Outcomes[l-1].Kind == "never" {
		c.TimeoutUs = rapid.IntRange(300, 6000).Draw(rt, "timeoutUs")
		// answered pings must stay far below the timeout, whatever the load: no slow answers in this class
		for i := range c.Outcomes {
			if c.Outcomes[i].DelayUs > 50 {
				c.Outcomes[i].DelayUs = 50
			}
		}
	}
	if len(c.Outcomes) > 0 && rapid.IntRange(0, 2).Draw(rt, "cancel") == 0 {
		at := rapid.IntRange(0, len(c.Outcomes)-1).Draw(rt, "at")
		phase := rapid.SampledFrom([]string{"before", "during", "after"}).Draw(rt, "phase")
		if phase == "during" && c.Outcomes[at].Kind != "never" {
			phase = "before"
		}
		if phase == "after" && c.Outcomes[at].Kind != "ok" {
			phase = "before"
		}
		if phase == "during" {
			c.TimeoutUs = 2000000 // the blocked ping ends by the cancel, not by the timeout
		}
		c.Cancel = &c13Cancel{At: at, Phase: phase, Deadline: rapid.IntRange(0, 2).Draw(rt, "byDeadline") == 0}
	}
	return c
}

func TestVerifC13_KeepAlive(t *testing.T) {
	vRun(t, "C13", vOpts{}, c13Gen, c13Run)
}

var _ = fmt.Sprintf
