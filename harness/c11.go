//go:build verif

package mqtt

// C11 — every blocking call returns when its context is cancelled or the connection ends.

import (
	"context"
	"errors"
	"fmt"
	"io"
	"runtime"
	"strings"
	"sync"
	"sync/atomic"
	"testing"
	"time"

	"pgregory.net/rapid"
)

type c11Call struct {
	Kind string `json:"kind"` // connect pub1 pub2 sub unsub ping disconnect
	Step string `json:"step"` // pre | wait | wait2 (pub2: between PUBREC and PUBCOMP) | write (blocked in Transport.Write)
}

type c11Case struct {
	Calls []c11Call `json:"calls"`
	Cause string    `json:"cause"` // cancel | deadline | localClose | peerClose | malformed
	// LiveCtx (cause "disconnect" only): the context given to Disconnect never ends. The peer does not close the
	// connection when it reads DISCONNECT (MQTT-3.14.4-1: closing is the client's duty), so a Disconnect that waits for
	// the peer is seen as a call that never returns.
	LiveCtx bool `json:"live_ctx,omitempty"`
}

func c11IsCtxCause(c string) bool { return c == "cancel" || c == "deadline" || c == "cancelCause" }

var c11Kinds = []string{"connect", "pub1", "pub2", "sub", "unsub", "ping", "disconnect"}
var c11Causes = []string{"cancel", "deadline", "cancelCause", "localClose", "peerClose", "malformed"}

// cause "disconnect": no context ends and no link fails; the application calls Disconnect (with a context of its
// own) while the other calls wait. Disconnect does not wait for the peer, so it returns, the link is closed by it,
// and the waiting calls fail.

// c11Grid enumerates every (call, step, cause) cell that exists.
func c11Grid() []c11Case {
	var out []c11Case
	for _, k := range c11Kinds {
		steps := []string{"pre", "wait"}
		switch k {
		case "pub2":
			steps = []string{"pre", "wait", "wait2"}
		case "disconnect":
			steps = []string{"pre"}
		}
		for _, cause := range c11Causes {
			for _, st := range steps {
				out = append(out, c11Case{Calls: []c11Call{{k, st}}, Cause: cause})
			}
			if !c11IsCtxCause(cause) && k != "disconnect" {
				// Transport.Write itself blocks; only the end of the link can release it
				out = append(out, c11Case{Calls: []c11Call{{k, "write"}}, Cause: cause})
			}
		}
		if k != "disconnect" && k != "connect" {
			out = append(out, c11Case{Calls: []c11Call{{k, "wait"}}, Cause: "disconnect"})
			out = append(out, c11Case{Calls: []c11Call{{k, "wait"}}, Cause: "disconnect", LiveCtx: true})
			if k == "pub2" {
				out = append(out, c11Case{Calls: []c11Call{{k, "wait2"}}, Cause: "disconnect"})
			}
		}
	}
	return out
}

func c11ServeGoroutines() int {
	return vGoroutinesWith("(*BaseClient).serve(") + vGoroutinesWith("(*BaseClient).Connect.func1(")
}

func c11Run(tb rapid.TB, c c11Case) {
	baseline := c11ServeGoroutines()
	r := newBaseRig()
	defer r.shutdown()
	hasConnect := false
	for _, cl := range c.Calls {
		if cl.Kind == "connect" {
			hasConnect = true
		}
	}
	// the peer answers up to each call's step and withholds the rest
	withholdFirst := map[string]bool{}
	withholdSecond := false
	for _, cl := range c.Calls {
		if cl.Step == "wait" || (cl.Step == "pre" && c11IsCtxCause(c.Cause)) {
			// (with the context already finished the answer is withheld too: otherwise success and
			// cancellation would both be legitimate outcomes)
			withholdFirst[cl.Kind] = true
		}
		if cl.Step == "wait2" {
			withholdSecond = true
		}
	}
	var arrived int32
	r.peer.auto = func(p *bpeer, pk refPacket) {
		switch pk.Type {
		case rtConnect:
			if hasConnect {
				atomic.AddInt32(&arrived, 1)
				return // CONNACK withheld
			}
			p.sendLocked(refPacket{Type: rtConnAck})
		case rtPublish:
			k := "pub1"
			if pk.QoS == 2 {
				k = "pub2"
			}
			if withholdFirst[k] && string(pk.Payload) == "wait" {
				atomic.AddInt32(&arrived, 1)
				return
			}
			bpeerBrokerAuto(p, pk)
		case rtPubRel:
			if withholdSecond {
				atomic.AddInt32(&arrived, 1)
				return
			}
			bpeerBrokerAuto(p, pk)
		case rtSubscribe:
			if withholdFirst["sub"] {
				atomic.AddInt32(&arrived, 1)
				return
			}
			bpeerBrokerAuto(p, pk)
		case rtUnsubscribe:
			if withholdFirst["unsub"] {
				atomic.AddInt32(&arrived, 1)
				return
			}
			bpeerBrokerAuto(p, pk)
		case rtPingReq:
			if withholdFirst["ping"] {
				atomic.AddInt32(&arrived, 1)
				return
			}
			bpeerBrokerAuto(p, pk)
		}
	}
	if !hasConnect {
		r.connect(tb)
	}
	ctx, cancel := context.WithCancel(context.Background())
	defer cancel()
	applyCause := func() {
		switch c.Cause {
		case "cancel":
			cancel()
		case "deadline":
			// replaced below by a context that is already past / about to pass its deadline
			cancel()
		case "localClose":
			r.cli.Close()
		case "peerClose":
			r.conn.peerClose(false)
		case "malformed":
			r.peer.sendRaw([]byte{0xF0, 0x00}, "malformed")
		case "disconnect":
			dctx, dc := context.WithTimeout(context.Background(), 50*time.Millisecond)
			if c.LiveCtx {
				dctx, dc = context.WithCancel(context.Background())
			}
			dret := make(chan error, 1)
			go func() { dret <- r.cli.Disconnect(dctx) }()
			select {
			case <-dret:
			case <-time.After(20 * time.Second):
				dc()
				cancel()
				r.conn.Close()
				vFailf(tb, map[string]interface{}{"log": r.log.strings(60), "goroutines": vGoroutineDump()}, "Disconnect still blocked 20 s after it was called (live context: %v; otherwise its own context ended after 50 ms) while %v were waiting for their acknowledgements", c.LiveCtx, c.Calls)
			}
			dc()
		}
	}
	var dlCancel context.CancelFunc
	if c.Cause == "cancelCause" {
		// cancelled with an explicit cause (io.EOF, of all things): the context's error is still context.Canceled
		cctx, cc := context.WithCancelCause(context.Background())
		ctx = cctx
		applyCause = func() { cc(io.EOF) }
		defer cc(nil)
	}
	if c.Cause == "deadline" {
		// a deadline context whose deadline the harness controls: it expires when applyCause runs
		ctx, dlCancel = c11DeadlineContext()
		applyCause = dlCancel
		defer dlCancel()
	}
	type res struct {
		call c11Call
		err  error
	}
	results := make(chan res, len(c.Calls))
	var wg sync.WaitGroup
	nWaiting := 0
	writeBlocked := false
	for _, cl := range c.Calls {
		if cl.Step == "wait" || cl.Step == "wait2" {
			nWaiting++
		}
		if cl.Step == "write" {
			writeBlocked = true
		}
	}
	preApplied := false
	for _, cl := range c.Calls {
		if cl.Step == "pre" && !preApplied {
			applyCause()
			preApplied = true
			if !c11IsCtxCause(c.Cause) {
				// let the link end be noticed before the call starts ("cause already present")
				if d := r.cli.Done(); d != nil {
					select {
					case <-d:
					case <-time.After(20 * time.Second):
					}
				}
			}
		}
	}
	if writeBlocked {
		atomic.StoreInt32(&r.conn.blockWrites, 1)
	}
	for _, cl := range c.Calls {
		cl := cl
		wg.Add(1)
		go func() {
			defer wg.Done()
			var err error
			payload := []byte("wait")
			switch cl.Kind {
			case "connect":
				_, err = r.cli.Connect(ctx, "verif-c11")
			case "pub1":
				err = r.cli.Publish(ctx, &Message{Topic: "t", QoS: QoS1, Payload: payload})
			case "pub2":
				err = r.cli.Publish(ctx, &Message{Topic: "t", QoS: QoS2, Payload: payload})
			case "sub":
				_, err = r.cli.Subscribe(ctx, Subscription{Topic: "t", QoS: QoS1})
			case "unsub":
				err = r.cli.Unsubscribe(ctx, "t")
			case "ping":
				err = r.cli.Ping(ctx)
			case "disconnect":
				err = r.cli.Disconnect(ctx)
			}
			results <- res{cl, err}
		}()
	}
	fail := func(format string, args ...interface{}) {
		cancel()
		r.conn.Close()
		vFailf(tb, map[string]interface{}{"log": r.log.strings(60)}, format, args...)
	}
	if !preApplied {
		// wait until every call is blocked at its step, then apply the cause
		if nWaiting > 0 && !vWaitUntil(20*time.Second, func() bool { return int(atomic.LoadInt32(&arrived)) >= nWaiting }) {
			fail("harness: only %d of %d calls reached their step", atomic.LoadInt32(&arrived), nWaiting)
		}
		if writeBlocked {
			// the calls are parked inside Transport.Write (nothing observable from outside): give them a moment
			vWaitUntil(5*time.Second, func() bool { return vGoroutinesWith("(*memConn).Write(", "sync.(*Cond).Wait") >= 1 })
		}
		// the cause itself is a call into the client (Close, Disconnect): it must come back as well
		applied := make(chan struct{})
		go func() { defer close(applied); applyCause() }()
		select {
		case <-applied:
		case <-time.After(20 * time.Second):
			dump := vGoroutineDump()
			fail("applying cause %q (a call into the client) has not returned after 20 s while %v were blocked\n%s", c.Cause, c.Calls, dump)
		}
	}
	// ---- every call must return
	donech := make(chan struct{})
	go func() { wg.Wait(); close(donech) }()
	select {
	case <-donech:
	case <-time.After(20 * time.Second):
		fail("%d call(s) still blocked 20 s after cause %q was applied at step(s) %v\n%s", len(c.Calls)-len(results), c.Cause, c.Calls, vGoroutineDump())
	}
	close(results)
	for x := range results {
		switch {
		case c11IsCtxCause(c.Cause):
			want := context.Canceled
			if c.Cause == "deadline" {
				want = context.DeadlineExceeded
			}
			if x.call.Kind == "disconnect" {
				continue // Disconnect does not wait for the peer; with a live link it simply succeeds
			}
			if x.err == nil {
				if x.call.Step == "pre" {
					fail("%s with an already finished context (%s) returned nil", x.call.Kind, c.Cause)
				}
				fail("%s blocked at %s returned nil after its context ended (%s)", x.call.Kind, x.call.Step, c.Cause)
			}
			if !errors.Is(x.err, want) {
				fail("%s at step %s: context ended (%s) but the call returned %v (want errors.Is(%v))", x.call.Kind, x.call.Step, c.Cause, x.err, want)
			}
		default:
			if x.err == nil && !(x.call.Kind == "disconnect") {
				fail("%s at step %s returned nil although the connection ended (%s)", x.call.Kind, x.call.Step, c.Cause)
			}
		}
	}
	if !c11IsCtxCause(c.Cause) {
		started := hasConnect || true
		if d := r.cli.Done(); d != nil && started {
			select {
			case <-d:
			case <-time.After(20 * time.Second):
				fail("Done() not closed 20 s after the connection ended (%s)\n%s", c.Cause, vGoroutineDump())
			}
		}
		if !vWaitUntil(20*time.Second, func() bool { return c11ServeGoroutines() <= baseline }) {
			fail("the reader goroutine of a dead connection is still running (cause %s)\n%s", c.Cause, vGoroutineDump())
		}
	}
	// Whatever happened: Connect was called on this client, so once the transport is closed Done() closes and the
	// reader goroutine is gone (also when the call itself ended early because of its context).
	r.conn.Close()
	dch := r.cli.Done()
	closedOK := false
	if dch != nil {
		select {
		case <-dch:
			closedOK = true
		case <-time.After(20 * time.Second):
		}
	}
	if !closedOK {
		fail("Connect was called, the transport has been closed, but Done() does not close (Done() channel nil: %v)\n%s", dch == nil, vGoroutineDump())
	}
	if !vWaitUntil(20*time.Second, func() bool { return c11ServeGoroutines() <= baseline }) {
		fail("the reader goroutine is still running 20 s after the transport was closed (cause %s)\n%s", c.Cause, vGoroutineDump())
	}
	labels := []string{"cause:" + c.Cause}
	for _, cl := range c.Calls {
		labels = append(labels, "cell:"+cl.Kind+"@"+cl.Step)
	}
	nontrivial := !(len(c.Calls) == 1 && c.Calls[0].Kind == "disconnect")
	vCount("C11", nontrivial, vJSON(c), labels, func() interface{} { return c })
}

// c11DeadlineContext returns a context that reports context.DeadlineExceeded once expire() is called.
// (A real timer would make "the cause is applied exactly at this step" depend on the clock.)
type c11DlCtx struct {
	context.Context
	mu   sync.Mutex
	done chan struct{}
	err  error
}

func (d *c11DlCtx) Done() <-chan struct{} { return d.done }
func (d *c11DlCtx) Err() error {
	d.mu.Lock()
	defer d.mu.Unlock()
	return d.err
}
func (d *c11DlCtx) Deadline() (time.Time, bool) { return time.Now().Add(time.Hour), true }

func c11DeadlineContext() (context.Context, context.CancelFunc) {
	d := &c11DlCtx{Context: context.Background(), done: make(chan struct{})}
	var once sync.Once
	return d, func() {
		once.Do(func() {
			d.mu.Lock()
			d.err = context.DeadlineExceeded
			d.mu.Unlock()
			close(d.done)
		})
	}
}

// TestVerifC11_Grid runs every cell of the grid (both tiers).
func TestVerifC11_Grid(t *testing.T) {
	if vReplayOrCorpusOnly() {
		t.Skip("replay mode")
	}
	grid := c11Grid()
	for _, c := range grid {
		vSetCurrent("C11", "TestVerifC11_Combo", c, true)
		c11Run(t, c)
	}
	vExtraSet("C11", "grid_cells", len(grid))
}

// TestVerifC11_Combo: 2..6 calls of mixed kinds blocked at once on one client, one cause.
func TestVerifC11_Combo(t *testing.T) {
	vRun(t, "C11", vOpts{CurFile: true, ReplayReps: 20}, func(rt *rapid.T) c11Case {
		c := c11Case{Cause: rapid.SampledFrom(append([]string{"disconnect"}, c11Causes...)).Draw(rt, "cause")}
		if c.Cause == "disconnect" {
			c.LiveCtx = rapid.Bool().Draw(rt, "liveCtx")
		}
		n := rapid.IntRange(2, 6).Draw(rt, "n")
		// (a call parked inside Transport.Write holds the write lock: Disconnect has to wait for the transport there,
		// like any other writer; that combination says nothing about the library)
		write := !c11IsCtxCause(c.Cause) && c.Cause != "disconnect" && rapid.IntRange(0, 4).Draw(rt, "write") == 0
		for i := 0; i < n; i++ {
			k := rapid.SampledFrom([]string{"pub1", "pub2", "pub2", "sub", "unsub", "ping"}).Draw(rt, "kind")
			st := "wait"
			if k == "pub2" && rapid.Bool().Draw(rt, "second") {
				st = "wait2"
			}
			if write {
				st = "write"
			}
			c.Calls = append(c.Calls, c11Call{k, st})
		}
		// one waiter per kind and step (the peer withholds per kind); ping has a single waiter slot
		seen := map[string]bool{}
		var calls []c11Call
		for _, cl := range c.Calls {
			key := cl.Kind
			if cl.Kind == "pub2" {
				key += cl.Step
			}
			if (cl.Kind == "ping" || cl.Kind == "pub2") && seen[key] {
				continue
			}
			seen[key] = true
			calls = append(calls, cl)
		}
		// pub2 waiting at both steps at once would need per-message scripting: keep one
		hasW2 := false
		c.Calls = nil
		for _, cl := range calls {
			if cl.Kind == "pub2" {
				if hasW2 {
					continue
				}
				hasW2 = true
			}
			c.Calls = append(c.Calls, cl)
		}
		return c
	}, c11Run)
}

var _ = fmt.Sprintf

// ---------------------------------------------------------------------------
// Connect / Disconnect of the reconnecting client

type c11RcCase struct {
	Call  string `json:"call"`  // connect | disconnect
	Phase string `json:"phase"` // dialling | connecting | waiting | activating (context ends while the accepting CONNACK is being processed) | dialling-noctx (the dialler ignores its context) | connect-stalled (the CONNECT write blocks)
	Cause string `json:"cause"` // cancel | deadline
}

func c11RcRun(tb rapid.TB, c c11RcCase) {
	log := &vLog{}
	var plan []e4Fault
	base := 500 * time.Microsecond
	switch c.Phase {
	case "connecting":
		plan = []e4Fault{{Kind: "silentConnack", Conn: 1}}
	case "waiting":
		plan = []e4Fault{{Kind: "dialErr", Conn: 1}, {Kind: "dialErr", Conn: 2}, {Kind: "dialErr", Conn: 3}}
		base = 400 * time.Millisecond
	}
	b := newVBroker(log, true, false, plan)
	d := &vdialer{b: b}
	if c.Phase == "dialling" || c.Phase == "dialling-noctx" {
		d.holdFrom, d.holdGate = 1, make(chan struct{})
		d.ignoreCtx = c.Phase == "dialling-noctx"
	}
	if c.Phase == "connect-stalled" {
		d.stallWrites = true // the CONNECT write itself blocks: the peer accepted the connection and reads nothing
	}
	rcOpts := []ReconnectOption{WithReconnectWait(base, 2*base)}
	if c.Phase == "connected-keepalive" {
		// an established connection with a realistic ping interval: Disconnect (with a live context) must not wait for the
		// keep-alive's next tick
		rcOpts = append(rcOpts, WithPingInterval(25*time.Second), WithTimeout(25*time.Second))
	}
	cliI, _ := NewReconnectClient(d, rcOpts...)
	cli := cliI.(*reconnectClient)
	mk := func() (context.Context, context.CancelFunc, func()) {
		if c.Cause == "deadline" {
			dctx, expire := c11DeadlineContext()
			return dctx, expire, expire
		}
		cctx, cancel := context.WithCancel(context.Background())
		return cctx, cancel, cancel
	}
	connCtx, connCancel := context.WithCancel(context.Background())
	var trigger func()
	if c.Call == "connect" {
		var cc context.CancelFunc
		connCtx, cc, trigger = mk()
		connCancel = cc
	}
	defer connCancel()
	if c.Phase == "activating" && c.Call == "connect" {
		// the caller's context ends exactly while Connect is completing: inside the Active callback
		d.onState = func(conn int, st ConnState, err error) {
			if st == StateActive {
				trigger()
			}
		}
	}
	connRet := make(chan error, 1)
	go func() {
		_, err := cli.Connect(connCtx, "verif-c11rc")
		connRet <- err
	}()
	cleanup := func() {
		connCancel()
		d.release()
		func() {
			defer func() { recover() }()
			select {
			case <-cli.disconnected:
			default:
				// (on its own goroutine: a Disconnect that ignores its context must not hang the harness)
				dctx, dc := context.WithTimeout(context.Background(), 2*time.Second)
				ddone := make(chan struct{})
				go func() {
					defer close(ddone)
					defer func() { recover() }()
					cli.Disconnect(dctx)
				}()
				select {
				case <-ddone:
				case <-time.After(4 * time.Second):
				}
				dc()
			}
		}()
		for _, bc := range d.connsSnapshot() {
			bc.mc.Close()
		}
	}
	fail := func(format string, args ...interface{}) {
		cleanup()
		vFailf(tb, map[string]interface{}{"trace": log.strings(60)}, format, args...)
	}
	reached := vWaitUntil(20*time.Second, func() bool {
		for _, e := range log.snapshot() {
			switch c.Phase {
			case "dialling", "dialling-noctx":
				if e.Kind == "DIAL" {
					return true
				}
			case "connect-stalled":
				if e.Kind == "DIAL-OK" {
					return vGoroutinesWith("(*memConn).Write(", "sync.(*Cond).Wait") >= 1
				}
			case "connecting":
				if e.Kind == "W" && e.Pkt.Type == rtConnect {
					return true
				}
			case "waiting":
				if e.Kind == "DIAL-ERR" {
					return true
				}
			case "activating":
				if e.Kind == "STATE" {
					return true
				}
			case "connected-keepalive":
				if e.Kind == "STATE" && strings.HasPrefix(e.Note, "Active") {
					return true
				}
			}
		}
		return false
	})
	if !reached {
		fail("harness: phase %s not reached", c.Phase)
	}
	want := context.Canceled
	if c.Cause == "deadline" {
		want = context.DeadlineExceeded
	}
	if c.Call == "connect" {
		trigger()
		select {
		case err := <-connRet:
			if c.Phase == "activating" {
				// the connection was being established when the context ended: success and the context's error are both fine
				if err != nil && !errors.Is(err, want) {
					fail("ReconnectClient.Connect returned %v (want nil or errors.Is(%v))", err, want)
				}
			} else if err == nil || !errors.Is(err, want) {
				fail("ReconnectClient.Connect in phase %s returned %v after its context ended (want errors.Is(%v))", c.Phase, err, want)
			}
		case <-time.After(20 * time.Second):
			fail("ReconnectClient.Connect still blocked 20 s after its context ended in phase %s\n%s", c.Phase, vGoroutineDump())
		}
	} else {
		dctx, dcancel, dtrigger := mk()
		defer dcancel()
		discRet := make(chan error, 1)
		go func() {
			defer func() {
				if r := recover(); r != nil {
					discRet <- fmt.Errorf("panic: %v", r)
				}
			}()
			discRet <- cli.Disconnect(dctx)
		}()
		vWaitUntil(10*time.Second, func() bool {
			select {
			case <-cli.disconnected:
				return true
			default:
				return false
			}
		})
		if c.Phase != "connected-keepalive" {
			dtrigger()
		}
		select {
		case err := <-discRet:
			if err != nil && !errors.Is(err, want) {
				fail("ReconnectClient.Disconnect in phase %s returned %v (want nil or errors.Is(%v))", c.Phase, err, want)
			}
		case <-time.After(20 * time.Second):
			fail("ReconnectClient.Disconnect still blocked 20 s after its context ended in phase %s\n%s", c.Phase, vGoroutineDump())
		}
	}
	vCount("C11", true, vJSON(c), []string{"cell:rc-" + c.Call + "@" + c.Phase, "cause:" + c.Cause}, func() interface{} { return c })
	cleanup()
	// nothing may be left running: once the dialler is released and Disconnect was called the loop goroutine ends
	if !vWaitUntil(20*time.Second, func() bool {
		select {
		case <-cli.done:
			return true
		default:
			return false
		}
	}) {
		vFailf(tb, map[string]interface{}{"trace": log.strings(60), "goroutines": vGoroutineDump()}, "the reconnect loop goroutine is still running 20 s after Disconnect (phase %s, call %s, cause %s)", c.Phase, c.Call, c.Cause)
	}
}

func TestVerifC11_ReconnectGrid(t *testing.T) {
	vRun(t, "C11", vOpts{CurFile: true, ReplayReps: 3}, func(rt *rapid.T) c11RcCase {
		c := c11RcCase{
			Call:  rapid.SampledFrom([]string{"connect", "disconnect"}).Draw(rt, "call"),
			Phase: rapid.SampledFrom([]string{"dialling", "connecting", "waiting", "activating", "dialling-noctx", "connect-stalled", "connected-keepalive"}).Draw(rt, "phase"),
			Cause: rapid.SampledFrom([]string{"cancel", "deadline"}).Draw(rt, "cause"),
		}
		if c.Phase == "connected-keepalive" {
			c.Call = "disconnect"
		}
		return c
	}, c11RcRun)
}

// ---------------------------------------------------------------------------
// liveness of the reader under concurrent API use: nothing may block for ever

type c11LiveCase struct {
	Inbound    int `json:"inbound"`    // inbound QoS2 exchanges (PUBLISH + PUBREL) and QoS1 messages
	Goroutines int `json:"goroutines"` // application goroutines polling Done/Err, re-registering the handler, publishing QoS0
	Calls      int `json:"calls"`
	Procs      int `json:"procs"`
}

func c11LiveRun(tb rapid.TB, c c11LiveCase) {
	old := runtime.GOMAXPROCS(c.Procs)
	defer runtime.GOMAXPROCS(old)
	r := newBaseRig()
	defer r.shutdown()
	r.peer.auto = bpeerBrokerAuto
	r.cli.Handle(HandlerFunc(func(*Message) {}))
	r.connect(tb)
	ctx, cancel := context.WithCancel(context.Background())
	defer cancel()
	var wg sync.WaitGroup
	for g := 0; g < c.Goroutines; g++ {
		g := g
		wg.Add(1)
		go func() {
			defer wg.Done()
			for i := 0; i < c.Calls; i++ {
				switch (g + i) % 4 {
				case 0:
					_ = r.cli.Done()
				case 1:
					_ = r.cli.Err()
				case 2:
					r.cli.Handle(HandlerFunc(func(*Message) {}))
				default:
					_ = r.cli.Publish(ctx, &Message{Topic: "live", Payload: []byte("x")})
				}
			}
		}()
	}
	wg.Add(1)
	go func() {
		defer wg.Done()
		for k := 0; k < c.Inbound; k++ {
			id := 1 + k%50000
			r.peer.send(refPacket{Type: rtPublish, QoS: 2, ID: id, Topic: "in", Payload: []byte("x")})
			r.peer.send(refPacket{Type: rtPubRel, ID: id})
			if k%3 == 0 {
				r.peer.send(refPacket{Type: rtPublish, QoS: 1, ID: id, Topic: "in", Payload: []byte("y")})
			}
		}
	}()
	donech := make(chan struct{})
	go func() { wg.Wait(); close(donech) }()
	select {
	case <-donech:
	case <-time.After(30 * time.Second):
		dump := vGoroutineDump()
		cancel()
		vFailf(tb, map[string]interface{}{"goroutines": dump}, "application calls (Done/Err/Handle/Publish) are still blocked after 30 s while inbound QoS2 traffic is being processed: dead-lock")
	}
	if !r.peer.sync(30 * time.Second) {
		vFailf(tb, map[string]interface{}{"log": r.log.strings(20), "goroutines": vGoroutineDump()}, "the reader stopped processing inbound packets (marker not acknowledged within 30 s, link up); Err()=%v", r.cli.Err())
	}
	vCount("C11", true, vJSON(c), []string{"liveness"}, func() interface{} { return c })
}

func TestVerifC11_Liveness(t *testing.T) {
	vRun(t, "C11", vOpts{CurFile: true, ReplayReps: 20}, func(rt *rapid.T) c11LiveCase {
		return c11LiveCase{Inbound: rapid.IntRange(100, 600).Draw(rt, "inbound"), Goroutines: rapid.IntRange(2, 8).Draw(rt, "goroutines"),
			Calls: rapid.IntRange(200, 2000).Draw(rt, "calls"), Procs: rapid.SampledFrom([]int{2, 4, 16}).Draw(rt, "procs")}
	}, c11LiveRun)
}
