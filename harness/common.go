//go:build verif

package mqtt

// Shared plumbing of the verification harness (see /verif/DESIGN.md section 1).
// This file is overlaid into package mqtt as zz_verif_common_test.go; it is never
// copied into /repo.

import (
	"bytes"
	"encoding/binary"
	"encoding/json"
	"fmt"
	"hash/fnv"
	"os"
	"path/filepath"
	"runtime"
	"sort"
	"strconv"
	"strings"
	"sync"
	"testing"
	"time"

	"pgregory.net/rapid"
)

// ---------------------------------------------------------------------------
// statistics

type vPropStats struct {
	Evaluations int                    `json:"evaluations"`
	Nontrivial  int                    `json:"nontrivial"`
	Distinct    int                    `json:"distinct_nontrivial"`
	Classes     map[string]int         `json:"classes"`
	Samples     []interface{}          `json:"samples"`
	Extra       map[string]interface{} `json:"extra"`
	Corpus      int                    `json:"corpus_replayed"`
	KnownHits   map[string]int         `json:"known_hits"`
	Failures    int                    `json:"failures"`
	hashes      map[uint64]struct{}
}

type vStatsT struct {
	mu    sync.Mutex
	props map[string]*vPropStats
}

var vStats = &vStatsT{props: map[string]*vPropStats{}}

const vMaxSamples = 6

func (s *vStatsT) get(prop string) *vPropStats {
	p := s.props[prop]
	if p == nil {
		p = &vPropStats{
			Classes:   map[string]int{},
			Extra:     map[string]interface{}{},
			KnownHits: map[string]int{},
			hashes:    map[uint64]struct{}{},
		}
		s.props[prop] = p
	}
	return p
}

func vHash(b []byte) uint64 {
	h := fnv.New64a()
	h.Write(b)
	return h.Sum64()
}

// vCount records one executed case. fp is a canonical fingerprint of the case
// (usually its JSON); sample is only evaluated while samples are still wanted.
func vCount(prop string, nontrivial bool, fp []byte, labels []string, sample func() interface{}) {
	vStats.mu.Lock()
	defer vStats.mu.Unlock()
	p := vStats.get(prop)
	p.Evaluations++
	for _, l := range labels {
		p.Classes[l]++
	}
	if nontrivial {
		p.Nontrivial++
		h := vHash(fp)
		if _, ok := p.hashes[h]; !ok {
			p.hashes[h] = struct{}{}
			if len(p.Samples) < vMaxSamples && sample != nil && vSampleAt(len(p.hashes)) {
				p.Samples = append(p.Samples, sample())
			}
		}
	}
}

// vSampleAt spreads the samples over the run: the 1st, 2nd, 10th, 100th, ... distinct case.
func vSampleAt(n int) bool {
	if n <= 2 {
		return true
	}
	for k := 10; k <= n; k *= 10 {
		if n == k {
			return true
		}
	}
	return false
}

func vExtraAdd(prop, key string, n int) {
	vStats.mu.Lock()
	defer vStats.mu.Unlock()
	p := vStats.get(prop)
	cur, _ := p.Extra[key].(int)
	p.Extra[key] = cur + n
}

func vExtraSet(prop, key string, v interface{}) {
	vStats.mu.Lock()
	defer vStats.mu.Unlock()
	vStats.get(prop).Extra[key] = v
}

func vKnownHit(prop, key string) {
	vStats.mu.Lock()
	defer vStats.mu.Unlock()
	vStats.get(prop).KnownHits[key]++
}

func vFlushStats() {
	path := os.Getenv("VERIF_STATS")
	if path == "" {
		return
	}
	vStats.mu.Lock()
	defer vStats.mu.Unlock()
	for prop, p := range vStats.props {
		p.Distinct = len(p.hashes)
		hs := make([]uint64, 0, len(p.hashes))
		for h := range p.hashes {
			hs = append(hs, h)
		}
		sort.Slice(hs, func(i, j int) bool { return hs[i] < hs[j] })
		buf := make([]byte, 8*len(hs))
		for i, h := range hs {
			binary.LittleEndian.PutUint64(buf[8*i:], h)
		}
		_ = os.WriteFile(path+"."+prop+".hashes", buf, 0o644)
	}
	b, _ := json.Marshal(vStats.props)
	_ = os.WriteFile(path, b, 0o644)
}

func TestMain(m *testing.M) {
	code := m.Run()
	vFlushStats()
	os.Exit(code)
}

// ---------------------------------------------------------------------------
// environment

func vEnv(name string) string { return os.Getenv(name) }

func vEnvInt(name string, def int) int {
	if s := os.Getenv(name); s != "" {
		if n, err := strconv.Atoi(s); err == nil {
			return n
		}
	}
	return def
}

var vKnownSet = func() map[string]bool {
	m := map[string]bool{}
	for _, k := range strings.Split(os.Getenv("VERIF_KNOWN"), ",") {
		if k != "" {
			m[k] = true
		}
	}
	return m
}()

// vKnown reports whether key is listed as a known (unrepaired) finding, i.e. whether
// generators should steer around it and classifiers may suppress it.
func vKnown(key string) bool { return vKnownSet[key] }

func vThorough() bool { return os.Getenv("VERIF_TIER") == "thorough" }

// ---------------------------------------------------------------------------
// failure files

type vFailFile struct {
	Property string          `json:"property"`
	Test     string          `json:"test"`
	Detail   string          `json:"detail"`
	Case     json.RawMessage `json:"case"`
	Trace    interface{}     `json:"trace,omitempty"`
}

type vCur struct {
	mu      sync.Mutex
	prop    string
	test    string
	caseRaw []byte
}

var vCurrent vCur

func vSetCurrent(prop, test string, c interface{}, curFile bool) []byte {
	b, err := json.Marshal(c)
	if err != nil {
		panic("verif: case not serialisable: " + err.Error())
	}
	vCurrent.mu.Lock()
	vCurrent.prop, vCurrent.test, vCurrent.caseRaw = prop, test, b
	vCurrent.mu.Unlock()
	if curFile {
		if dir := os.Getenv("VERIF_FAILDIR"); dir != "" {
			ff := vFailFile{Property: prop, Test: test, Detail: "process died while running this case", Case: b}
			out, _ := json.Marshal(ff)
			_ = os.WriteFile(filepath.Join(dir, prop+"-"+test+".cur.json"), out, 0o644)
		}
	}
	return b
}

// vWriteFailure stores the current case together with the oracle's verdict. The file
// is overwritten on every failing execution, so after rapid has shrunk the case the
// file holds the minimal one (rapid re-runs the minimal case last).
func vWriteFailure(detail string, trace interface{}) {
	dir := os.Getenv("VERIF_FAILDIR")
	if dir == "" {
		return
	}
	vCurrent.mu.Lock()
	ff := vFailFile{Property: vCurrent.prop, Test: vCurrent.test, Detail: detail, Case: vCurrent.caseRaw, Trace: trace}
	vCurrent.mu.Unlock()
	out, err := json.MarshalIndent(ff, "", " ")
	if err != nil {
		ff.Trace = fmt.Sprintf("%v", trace)
		out, _ = json.MarshalIndent(ff, "", " ")
	}
	_ = os.WriteFile(filepath.Join(dir, ff.Property+"-"+ff.Test+".fail.json"), out, 0o644)
	vStats.mu.Lock()
	vStats.get(ff.Property).Failures++
	vStats.mu.Unlock()
}

// vFailf reports an oracle violation for the current case.
func vFailf(tb rapid.TB, trace interface{}, format string, args ...interface{}) {
	tb.Helper()
	detail := fmt.Sprintf(format, args...)
	vWriteFailure(detail, trace)
	tb.Fatalf("ORACLE: %s", detail)
}

// ---------------------------------------------------------------------------
// generic property runner: generation by rapid, replay without it

type vOpts struct {
	CurFile    bool // write the case to <faildir>/<prop>-<test>.cur.json before running it
	ReplayReps int  // repetitions of a replayed case (schedule dependent engines)
}

func vTestName(t *testing.T) string {
	n := t.Name()
	if i := strings.IndexByte(n, '/'); i >= 0 {
		n = n[:i]
	}
	return n
}

func vReplayFile[C any](t *testing.T, prop, test, path string, run func(tb rapid.TB, c C), reps int, opts vOpts) bool {
	raw, err := os.ReadFile(path)
	if err != nil {
		t.Fatalf("replay: %v", err)
	}
	var ff vFailFile
	if err := json.Unmarshal(raw, &ff); err != nil {
		t.Fatalf("replay: %s: %v", path, err)
	}
	if ff.Test != test {
		return false
	}
	var c C
	dec := json.NewDecoder(bytes.NewReader(ff.Case))
	if err := dec.Decode(&c); err != nil {
		t.Fatalf("replay: %s: case: %v", path, err)
	}
	if reps < 1 {
		reps = 1
	}
	reps = vEnvInt("VERIF_REPLAY_REPS", reps)
	for i := 0; i < reps; i++ {
		vSetCurrent(prop, test, c, opts.CurFile)
		run(t, c)
	}
	return true
}

// vRun is the entry point of every generated check.
//   - VERIF_REPLAY=<file>: run that case (if it belongs to this test), nothing else.
//   - VERIF_CORPUS=<dir>: first replay every saved case of this test found there.
//   - then rapid.Check over gen/run.
func vRun[C any](t *testing.T, prop string, opts vOpts, gen func(rt *rapid.T) C, run func(tb rapid.TB, c C)) {
	test := vTestName(t)
	if path := os.Getenv("VERIF_REPLAY"); path != "" {
		reps := opts.ReplayReps
		if !vReplayFile(t, prop, test, path, run, reps, opts) {
			t.Skip("replay file belongs to another test")
		}
		return
	}
	if dir := os.Getenv("VERIF_CORPUS"); dir != "" {
		files, _ := filepath.Glob(filepath.Join(dir, "*.json"))
		sort.Strings(files)
		for _, f := range files {
			if vReplayFile(t, prop, test, f, run, opts.ReplayReps, opts) {
				vStats.mu.Lock()
				vStats.get(prop).Corpus++
				vStats.mu.Unlock()
			}
		}
	}
	if os.Getenv("VERIF_CORPUS_ONLY") != "" {
		return
	}
	rapid.Check(t, func(rt *rapid.T) {
		c := gen(rt)
		vSetCurrent(prop, test, c, opts.CurFile)
		run(rt, c)
	})
}

// vJSON is the canonical fingerprint source of a case value.
func vJSON(v interface{}) []byte {
	b, err := json.Marshal(v)
	if err != nil {
		panic(err)
	}
	return b
}

// ---------------------------------------------------------------------------
// goroutine inspection

func vGoroutineDump() string {
	buf := make([]byte, 1<<20)
	for {
		n := runtime.Stack(buf, true)
		if n < len(buf) {
			return string(buf[:n])
		}
		buf = make([]byte, 2*len(buf))
	}
}

// vGoroutinesWith counts goroutines whose stack contains every one of the substrings.
func vGoroutinesWith(subs ...string) int {
	n := 0
	for _, g := range strings.Split(vGoroutineDump(), "\n\n") {
		ok := true
		for _, s := range subs {
			if !strings.Contains(g, s) {
				ok = false
				break
			}
		}
		if ok {
			n++
		}
	}
	return n
}

// vWaitUntil polls cond until it holds or the (generous) deadline passes. It is only
// used for "this must eventually be observable" conditions; callers treat a miss as
// either a violation backed by a goroutine dump or as inconclusive, never silently.
func vWaitUntil(d time.Duration, cond func() bool) bool {
	deadline := time.Now().Add(d)
	for i := 0; ; i++ {
		if cond() {
			return true
		}
		if time.Now().After(deadline) {
			return false
		}
		if i < 50 {
			runtime.Gosched()
		} else if i < 200 {
			time.Sleep(50 * time.Microsecond)
		} else {
			time.Sleep(500 * time.Microsecond)
		}
	}
}

// vInconclusive marks the run as inconclusive (exit 2 in the driver) without failing
// the property: used when a wall-clock budget was hit while things were still moving.
func vInconclusive(prop, why string) {
	vStats.mu.Lock()
	defer vStats.mu.Unlock()
	p := vStats.get(prop)
	cur, _ := p.Extra["inconclusive"].(int)
	p.Extra["inconclusive"] = cur + 1
	p.Extra["inconclusive_why"] = why
}
