//go:build verif

package mqtt

// C16 — connection state, Err() and Done() report what really happened to the connection.

import (
	"context"
	"errors"
	"fmt"
	"runtime"
	"sync"
	"testing"
	"time"

	"pgregory.net/rapid"
)

// ---------------------------------------------------------------------------
// (i) one BaseClient, endings racing each other and Connect

type c16Ending struct {
	Kind   string `json:"kind"` // peerClose | localClose | malformed | disconnect | badSuback (SUBACK with the wrong number of codes for a pending Subscribe)
	Yields int    `json:"yields"`
}

type c16Case struct {
	ConnAck string      `json:"connack"` // accepted | refused | malformed | none
	Code    int         `json:"code,omitempty"`
	Settle  bool        `json:"settle"`          // wait for Connect to return and sample a healthy connection before the endings
	Noise   []int       `json:"noise,omitempty"` // after the settle point: odd but harmless broker packets that must not end the connection
	Endings []c16Ending `json:"endings"`
}

// c16NoisePackets: packets a (sloppy) broker may send that the client tolerates: none of them ends the connection,
// so afterwards the connection is still healthy.
var c16NoisePackets = []refPacket{
	{Type: rtPublish, QoS: 1, ID: 0, Topic: "n/q1-id0", Payload: []byte("x")}, // packet id 0
	{Type: rtPublish, QoS: 2, ID: 0, Topic: "n/q2-id0"},
	{Type: rtPubRel, ID: 0},
	{Type: rtPubAck, ID: 4242}, // nobody waits for it
	{Type: rtPubComp, ID: 4242},
	{Type: rtSubAck, ID: 4242, Codes: []int{0x80}},
	{Type: rtUnsubAck, ID: 0},
	{Type: rtPingResp},
	{Type: rtConnAck},
	{Type: rtPublish, QoS: 0, Topic: "n/empty"},
	{Type: rtPublish, QoS: 1, ID: 9, Dup: true, Retain: true, Topic: "n/dup"},
}

func c16Gen(rt *rapid.T) c16Case {
	c := c16Case{ConnAck: rapid.SampledFrom([]string{"accepted", "accepted", "accepted", "refused", "malformed", "none"}).Draw(rt, "connack")}
	if c.ConnAck == "refused" {
		c.Code = rapid.SampledFrom([]int{1, 2, 3, 4, 5, 6, 0x80, 0x84, 255}).Draw(rt, "code") // (codes above 5 are reserved: not an acceptance either)
	}
	c.Settle = c.ConnAck == "accepted" && rapid.Bool().Draw(rt, "settle")
	if c.Settle {
		c.Noise = rapid.SliceOfN(rapid.IntRange(0, len(c16NoisePackets)-1), 0, 4).Draw(rt, "noise")
	}
	c.Endings = rapid.SliceOfN(rapid.Custom(func(rt *rapid.T) c16Ending {
		return c16Ending{Kind: rapid.SampledFrom([]string{"peerClose", "localClose", "malformed", "disconnect", "badSuback"}).Draw(rt, "kind"), Yields: rapid.IntRange(0, 6).Draw(rt, "yields")}
	}), 1, 4).Draw(rt, "endings")
	if c.ConnAck == "none" || c.ConnAck == "refused" || c.ConnAck == "malformed" {
		// these already end the attempt (refused/malformed) or leave Connect blocked (none): at least one ending follows anyway
	}
	return c
}

func c16Run(tb rapid.TB, c c16Case) {
	r := newBaseRig()
	defer r.shutdown()
	connackSent := make(chan struct{})
	var once sync.Once
	r.peer.auto = func(p *bpeer, pk refPacket) {
		if pk.Type == rtConnect {
			switch c.ConnAck {
			case "accepted":
				p.sendLocked(refPacket{Type: rtConnAck})
			case "refused":
				p.sendLocked(refPacket{Type: rtConnAck, Code: c.Code})
			case "malformed":
				p.conn.peerSend([]byte{0x20, 0x03, 0x00, 0x00, 0x00})
				p.log.add(1, "B-RAW", nil, "malformed CONNACK")
			}
			once.Do(func() { close(connackSent) })
		}
	}
	ctx, cancel := context.WithCancel(context.Background())
	defer cancel()
	type connRes struct {
		err error
		seq int64
	}
	connCh := make(chan connRes, 1)
	go func() {
		_, err := r.cli.Connect(ctx, "verif-c16")
		connCh <- connRes{err, r.log.add(1, "CONNECT-RET", nil, fmt.Sprint(err))}
	}()
	select {
	case <-connackSent:
	case <-time.After(20 * time.Second):
		tb.Fatalf("harness: CONNECT never written")
	}
	fail := func(format string, args ...interface{}) {
		cancel()
		vFailf(tb, r.log.strings(80), format, args...)
	}
	var cr *connRes
	if c.Settle {
		select {
		case x := <-connCh:
			cr = &x
		case <-time.After(20 * time.Second):
			fail("Connect did not return after an accepting CONNACK")
		}
		if cr.err != nil {
			fail("Connect failed on an accepting CONNACK: %v", cr.err)
		}
		if !r.peer.sync(20 * time.Second) {
			fail("healthy connection does not process packets")
		}
		if err := r.cli.Err(); err != nil {
			fail("Err() = %v on a healthy connection", err)
		}
		select {
		case <-r.cli.Done():
			fail("Done() is closed on a healthy connection")
		default:
		}
		if st := r.stateLog(); len(st) != 1 || st[0].State != StateActive {
			fail("state callbacks on a healthy connection: %v (want exactly one Active)", st)
		}
		if len(c.Noise) > 0 {
			for _, k := range c.Noise {
				r.peer.send(c16NoisePackets[k])
			}
			if !r.peer.sync(20 * time.Second) {
				// the connection ended although nothing fatal was sent: it must at least say why
				if err := r.cli.Err(); err == nil {
					fail("the connection stopped processing packets after harmless broker packets %v and Err() is nil", c.Noise)
				}
			} else {
				if err := r.cli.Err(); err != nil {
					fail("Err() = %v on a healthy connection (after harmless broker packets %v)", err, c.Noise)
				}
				select {
				case <-r.cli.Done():
					fail("Done() is closed on a healthy connection (after harmless broker packets %v)", c.Noise)
				default:
				}
			}
		}
	}
	// a Subscribe that is waiting for its SUBACK (needed by the badSuback ending; only on an established connection)
	subID := 0
	needSub := false
	for _, e := range c.Endings {
		if e.Kind == "badSuback" {
			needSub = true
		}
	}
	if needSub && c.Settle {
		go func() {
			_, _ = r.cli.Subscribe(ctx, Subscription{Topic: "c16/sub", QoS: QoS1}, Subscription{Topic: "c16/sub2", QoS: QoS1})
		}()
		if r.peer.waitRecv(20*time.Second, func(pk refPacket) bool { return pk.Type == rtSubscribe }, 1) {
			for _, pk := range r.peer.received() {
				if pk.Type == rtSubscribe {
					subID = pk.ID
				}
			}
		}
	}
	// ---- the endings, racing
	var wg sync.WaitGroup
	disconnectCalled := false
	var discSeq int64
	var dmu sync.Mutex
	cleanDisconnect := c.Settle && len(c.Endings) == 1 && c.Endings[0].Kind == "disconnect"
	for _, e := range c.Endings {
		e := e
		if e.Kind == "disconnect" {
			disconnectCalled = true
		}
		wg.Add(1)
		go func() {
			defer wg.Done()
			for i := 0; i < e.Yields; i++ {
				runtime.Gosched()
			}
			switch e.Kind {
			case "peerClose":
				r.conn.peerClose(false)
			case "localClose":
				r.cli.Close()
			case "malformed":
				r.peer.sendRaw([]byte{0xF0, 0x00}, "malformed")
			case "badSuback":
				if subID != 0 {
					r.peer.send(refPacket{Type: rtSubAck, ID: subID, Codes: []int{1}}) // one code for two filters: the client drops the link
				} else {
					r.peer.sendRaw([]byte{0xF0, 0x00}, "malformed") // no Subscribe pending (connection not established): plain protocol error
				}
			case "disconnect":
				dctx, dc := context.WithTimeout(context.Background(), 20*time.Second)
				seq := r.log.add(1, "DISCONNECT-CALL", nil, "")
				dmu.Lock()
				if discSeq == 0 {
					discSeq = seq
				}
				dmu.Unlock()
				_ = r.cli.Disconnect(dctx)
				dc()
			}
		}()
	}
	if c.ConnAck == "none" {
		// Connect is still waiting for a CONNACK that never comes and holds the connect lock, which
		// keeps Disconnect out: its caller gives up at some point
		time.AfterFunc(2*time.Millisecond, cancel)
	}
	wg.Wait()
	// the connection has ended (every ending kind ends it): Done() must close
	done := r.cli.Done()
	if !vWaitUntil(20*time.Second, func() bool {
		select {
		case <-done:
			return true
		default:
			return false
		}
	}) {
		fail("Done() not closed 20 s after the connection ended (endings %v)\n%s", c.Endings, vGoroutineDump())
	}
	if cr == nil {
		select {
		case x := <-connCh:
			cr = &x
		case <-time.After(20 * time.Second):
			fail("Connect did not return although the connection ended\n%s", vGoroutineDump())
		}
	}
	// callbacks may still be in flight right after Done(): Closed is reported before Done closes, Disconnected inside Disconnect
	st := r.stateLog()
	nActive, nClosed, nDisc := 0, 0, 0
	var closedEv, discEv *vStateEv
	for i := range st {
		switch st[i].State {
		case StateActive:
			nActive++
		case StateClosed:
			nClosed++
			closedEv = &st[i]
		case StateDisconnected:
			nDisc++
			discEv = &st[i]
		}
	}
	if nActive > 1 || (nActive == 1 && c.ConnAck != "accepted") {
		fail("Active reported %d times with CONNACK %s", nActive, c.ConnAck)
	}
	if nActive == 1 && cr.err != nil && !disconnectCalled {
		// Active is only reported on Connect's success path
		fail("Active was reported but Connect returned %v", cr.err)
	}
	if !disconnectCalled {
		if nClosed != 1 || nDisc != 0 {
			fail("the connection ended without Disconnect: Closed reported %d times, Disconnected %d times (want 1, 0); callbacks %v", nClosed, nDisc, st)
		}
		err := r.cli.Err()
		if err == nil || closedEv.Err == nil {
			fail("connection ended without Disconnect but Err() = %v, Closed callback error = %v", err, closedEv.Err)
		}
		if err.Error() != closedEv.Err.Error() {
			fail("Closed callback carried %q, Err() returns %q", closedEv.Err, err)
		}
	} else {
		if nDisc != 1 {
			fail("Disconnect was called: Disconnected reported %d times; callbacks %v", nDisc, st)
		}
		if nClosed > 1 {
			fail("Closed reported %d times; callbacks %v", nClosed, st)
		}
		if closedEv != nil && closedEv.Seq > discEv.Seq {
			// Known finding D15: state callbacks are invoked outside the state lock, so when the connection
			// ends on its own while Disconnect is being called the two callbacks can be delivered in the
			// wrong order. Only that shape is excused; a Closed after a Disconnect that had no rival ending
			// (cleanDisconnect below) is still a violation.
			rival := c.ConnAck != "accepted"
			for _, e := range c.Endings {
				if e.Kind != "disconnect" {
					rival = true
				}
			}
			if vKnown("D15") && rival {
				vKnownHit("C16", "D15")
			} else {
				fail("Closed (#%d) was reported after Disconnected (#%d)", closedEv.Seq, discEv.Seq)
			}
		}
		if cleanDisconnect {
			if err := r.cli.Err(); err != nil {
				fail("Err() = %v after a graceful Disconnect on a healthy connection", err)
			}
			if nClosed != 0 {
				fail("Closed reported after a graceful Disconnect; callbacks %v", st)
			}
		}
	}
	labels := []string{"c16:connack=" + c.ConnAck, fmt.Sprintf("c16:endings=%d", len(c.Endings))}
	if disconnectCalled {
		labels = append(labels, "c16:with-disconnect")
	}
	vCount("C16", len(c.Endings) >= 2 || !c.Settle, vJSON(c), labels, func() interface{} { return c })
}

func TestVerifC16_Base(t *testing.T) {
	vRun(t, "C16", vOpts{CurFile: true, ReplayReps: 50}, c16Gen, c16Run)
}

// ---------------------------------------------------------------------------
// (ii) connections managed by the reconnecting client, keep-alive on

func c16bGen(rt *rapid.T) e4Case {
	c := e4Case{Cfg: e4GenConfig(rt)}
	c.Cfg.PingMs = rapid.IntRange(1, 4).Draw(rt, "pingMs")
	c.Cfg.PingTimeoutMs = 2000
	c.Steps = []e4Step{{Kind: "connect"}}
	n := rapid.IntRange(1, 4).Draw(rt, "reconnects")
	idx := 0
	for i := 0; i < n; i++ {
		if rapid.Bool().Draw(rt, "pub") {
			idx++
			c.Steps = append(c.Steps, e4Step{Kind: "pub", QoS: rapid.IntRange(0, 2).Draw(rt, "qos"), Topic: "t/a", Idx: idx})
		}
		c.Steps = append(c.Steps, e4Step{Kind: "settle"}, e4Step{Kind: "cutNow"}, e4Step{Kind: "sleep", Extra: rapid.SampledFrom([]int{0, 100, 1000}).Draw(rt, "gap")})
	}
	// give goroutines left over from earlier connections their chance to act, then sample
	c.Steps = append(c.Steps, e4Step{Kind: "settle"}, e4Step{Kind: "sleep", Extra: c.Cfg.PingMs * 1000 * rapid.IntRange(2, 4).Draw(rt, "linger")}, e4Step{Kind: "settle"}, e4Step{Kind: "sample"})
	if rapid.Bool().Draw(rt, "disconnect") {
		if rapid.Bool().Draw(rt, "pendingAtDisconnect") {
			// a request whose acknowledgement is late keeps the task goroutine busy while Disconnect is called
			idx++
			c.Faults = append(c.Faults, e4Fault{Kind: "dropAck", Conn: n + 1, Type: rtPubAck, Nth: rapid.IntRange(1, 2).Draw(rt, "nthAck")})
			c.Steps = append(c.Steps, e4Step{Kind: "pub", QoS: 1, Topic: "t/late", Idx: idx}, e4Step{Kind: "pub", QoS: 1, Topic: "t/late", Idx: idx + 1}, e4Step{Kind: "sleep", Extra: 300})
			idx++
		}
		c.Steps = append(c.Steps, e4Step{Kind: "disconnect"}, e4Step{Kind: "sleep", Extra: c.Cfg.PingMs * 1000 * 2}, e4Step{Kind: "sample"})
	}
	return c
}

type c16Sample struct {
	Seq             int64
	Conn            int
	Healthy         bool
	Err             error
	DoneOpen        bool
	AfterDisc       bool
	TransportClosed bool
}

func c16bOracle(r *e4Result) string {
	for _, s := range r.Samples {
		if s.Healthy && !s.AfterDisc {
			if s.Err != nil {
				return fmt.Sprintf("connection c%d is healthy (no fault was applied to it, it answers pings) but its Err() = %v (sampled at #%d)", s.Conn, s.Err, s.Seq)
			}
			if !s.DoneOpen {
				return fmt.Sprintf("connection c%d is healthy but its Done() is closed (sampled at #%d)", s.Conn, s.Seq)
			}
		}
		if s.AfterDisc {
			if s.Err != nil {
				return fmt.Sprintf("connection c%d was healthy and then gracefully disconnected, but its Err() = %v (sampled at #%d)", s.Conn, s.Err, s.Seq)
			}
			if s.DoneOpen && s.TransportClosed {
				return fmt.Sprintf("connection c%d was disconnected and its transport is closed, but its Done() is still open (sampled at #%d)", s.Conn, s.Seq)
			}
		}
	}
	// per connection callback log, as it was when the run ended (before the harness tore it down)
	for _, ce := range r.ConnEnd {
		nActive, nClosed, nDisc := 0, 0, 0
		var closedErr error
		for _, s := range ce.States {
			switch s.State {
			case StateActive:
				nActive++
			case StateClosed:
				nClosed++
				closedErr = s.Err
			case StateDisconnected:
				nDisc++
			}
		}
		if nActive > 1 {
			return fmt.Sprintf("connection c%d: Active reported %d times", ce.ID, nActive)
		}
		if nClosed > 1 || nDisc > 1 {
			return fmt.Sprintf("connection c%d: Closed reported %d times, Disconnected %d times", ce.ID, nClosed, nDisc)
		}
		if nClosed == 1 && closedErr == nil {
			return fmt.Sprintf("connection c%d: Closed reported with a nil error", ce.ID)
		}
		if ce.DoneClosed && nDisc == 0 && nClosed == 0 && ce.Connected {
			// the connection ended without Disconnect: Closed is reported before Done() closes
			return fmt.Sprintf("connection c%d ended (Done closed) without Disconnect but Closed was never reported", ce.ID)
		}
	}
	if r.Stuck {
		return "client idle with work undone: " + e4Undone(r)
	}
	return ""
}

func TestVerifC16_Reconnect(t *testing.T) {
	vRun(t, "C16", vOpts{CurFile: true, ReplayReps: 10}, c16bGen, func(tb rapid.TB, c e4Case) {
		e4Check(tb, "C16", c, c16bOracle, func(r *e4Result) (bool, []string) {
			n := 0
			for _, bc := range r.Conns {
				if bc.connected {
					n++
				}
			}
			labels := []string{fmt.Sprintf("c16:managed-connections=%d", minInt(n, 5))}
			if r.Disconnected {
				labels = append(labels, "c16:graceful-disconnect")
			}
			return n >= 2 && len(r.Samples) >= 1, labels
		})
	})
}

var _ = errors.New
