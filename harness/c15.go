//go:build verif

package mqtt

// C15 — packet identifiers are non-zero and unique among outstanding requests.

import (
	"context"
	"fmt"
	"sync"
	"sync/atomic"
	"testing"
	"time"

	"pgregory.net/rapid"
)

// ---------------------------------------------------------------------------
// (1) the allocator

type c15AllocCase struct {
	Start      uint32 `json:"start"`
	Goroutines int    `json:"goroutines"`
	Each       int    `json:"each"`
}

func c15GenStart(rt *rapid.T) uint32 {
	switch rapid.IntRange(0, 4).Draw(rt, "startKind") {
	case 0:
		return uint32(rapid.IntRange(0xFFF0, 0x10010).Draw(rt, "start"))
	case 1:
		return uint32(0xFFFFFFF0 + rapid.IntRange(0, 15).Draw(rt, "start"))
	case 2:
		return uint32(rapid.IntRange(0, 16).Draw(rt, "start"))
	case 3:
		return uint32(rapid.IntRange(0, 0xFFFF).Draw(rt, "start"))<<16 | uint32(rapid.IntRange(0xFFF0, 0xFFFF).Draw(rt, "lo"))
	}
	return rapid.Uint32().Draw(rt, "start")
}

func c15AllocRun(tb rapid.TB, c c15AllocCase) {
	cli := &BaseClient{}
	atomic.StoreUint32(&cli.idLast, c.Start)
	got := make([][]uint16, c.Goroutines)
	var wg sync.WaitGroup
	startGate := make(chan struct{})
	for g := 0; g < c.Goroutines; g++ {
		g := g
		wg.Add(1)
		go func() {
			defer wg.Done()
			ids := make([]uint16, 0, c.Each)
			<-startGate
			for i := 0; i < c.Each; i++ {
				ids = append(ids, cli.newID())
			}
			got[g] = ids
		}()
	}
	close(startGate)
	wg.Wait()
	seen := make(map[uint16]bool, c.Goroutines*c.Each)
	wrapped := false
	for g, ids := range got {
		for i, id := range ids {
			if id == 0 {
				vFailf(tb, nil, "newID returned 0 (goroutine %d, allocation %d, start %#x)", g, i, c.Start)
			}
			if seen[id] {
				vFailf(tb, nil, "newID returned %d twice within %d allocations (start %#x, %d goroutines)", id, c.Goroutines*c.Each, c.Start, c.Goroutines)
			}
			seen[id] = true
			if id == 1 || id == 0xFFFF {
				wrapped = true
			}
		}
	}
	labels := []string{fmt.Sprintf("alloc:goroutines=%d", c.Goroutines)}
	if wrapped {
		labels = append(labels, "alloc:crossed-wrap")
	}
	vCount("C15", c.Goroutines >= 2 || wrapped, vJSON(c), labels, func() interface{} { return c })
}

func TestVerifC15_Alloc(t *testing.T) {
	vRun(t, "C15", vOpts{}, func(rt *rapid.T) c15AllocCase {
		g := rapid.IntRange(1, 16).Draw(rt, "g")
		maxEach := 65535 / g
		each := rapid.IntRange(1, 400).Draw(rt, "each")
		if rapid.IntRange(0, 30).Draw(rt, "full") == 0 {
			each = maxEach // a full cycle: every non-zero id exactly once
		}
		if each > maxEach {
			each = maxEach
		}
		return c15AllocCase{Start: c15GenStart(rt), Goroutines: g, Each: each}
	}, c15AllocRun)
}

// TestVerifC15_FullCycle: 65535 sequential allocations from a start value hit every
// non-zero id exactly once (one deterministic case per run, start derived from the seed).
func TestVerifC15_FullCycle(t *testing.T) {
	if vReplayOrCorpusOnly() {
		t.Skip("replay mode")
	}
	for _, start := range []uint32{0, 0xFFFE, 0xFFFF, 0xFFFFFFFF, uint32(vEnvInt("VERIF_SEED_VALUE", 1)) * 2654435761} {
		c := c15AllocCase{Start: start, Goroutines: 1, Each: 65535}
		vSetCurrent("C15", "TestVerifC15_Alloc", c, false)
		c15AllocRun(t, c)
	}
}

// ---------------------------------------------------------------------------
// (2) on the wire, with a peer that withholds acknowledgements

type c15Req struct {
	Kind string `json:"kind"` // pub1 pub2 sub unsub
	ID   int    `json:"id,omitempty"`
}

type c15WireCase struct {
	Start  uint32   `json:"start"`
	Reqs   []c15Req `json:"reqs"`
	Rounds int      `json:"rounds"`
	// RetryIdx > 0: in the first round, while everything is outstanding, request RetryIdx-1 (a QoS1 publish) gives up
	// (its own context ends), is re-issued through its retry handle on the same connection, and then one more fresh
	// request is made: its identifier must differ from every outstanding one, the retransmitted one included
	RetryIdx int `json:"retryIdx,omitempty"`
}

func c15WireRun(tb rapid.TB, c c15WireCase) {
	r := newBaseRig()
	defer r.shutdown()
	r.connect(tb)
	atomic.StoreUint32(&r.cli.idLast, c.Start)

	ctx, cancel := context.WithCancel(context.Background())
	defer cancel()
	n := len(c.Reqs)
	total := 0
	fixed := 0
	for round := 0; round < c.Rounds; round++ {
		before := len(r.peer.received())
		var wg sync.WaitGroup
		gate := make(chan struct{})
		retryCtx, retryCancel := context.WithCancel(ctx)
		defer retryCancel()
		retryErr := make(chan error, 1)
		for i, q := range c.Reqs {
			i, q := i, q
			wg.Add(1)
			go func() {
				defer wg.Done()
				<-gate
				tag := fmt.Sprintf("r/%d/%d", round, i)
				if round == 0 && c.RetryIdx == i+1 && q.Kind == "pub1" {
					retryErr <- r.cli.Publish(retryCtx, &Message{Topic: tag, QoS: QoS1, ID: uint16(q.ID), Payload: []byte("x")})
					return
				}
				switch q.Kind {
				case "pub1", "pub2":
					qos := QoS1
					if q.Kind == "pub2" {
						qos = QoS2
					}
					id := 0
					if round == 0 {
						id = q.ID
					}
					_ = r.cli.Publish(ctx, &Message{Topic: tag, QoS: qos, ID: uint16(id), Payload: []byte("x")})
				case "sub":
					_, _ = r.cli.Subscribe(ctx, Subscription{Topic: tag, QoS: QoS1})
				case "unsub":
					_ = r.cli.Unsubscribe(ctx, tag)
				}
			}()
		}
		close(gate)
		isReq := func(pk refPacket) bool {
			return pk.Type == rtPublish || pk.Type == rtSubscribe || pk.Type == rtUnsubscribe
		}
		if !r.peer.waitRecv(20*time.Second, isReq, total+n) {
			vFailf(tb, map[string]interface{}{"log": r.log.strings(60), "goroutines": vGoroutineDump()}, "only %d of %d concurrent requests reached the wire", r.peer.countRecv(isReq)-total, n)
		}
		total += n
		// all n requests are unacknowledged at this point: their ids must be distinct and non-zero
		got := r.peer.received()[before:]
		ids := map[int]string{}
		for _, pk := range got {
			if !isReq(pk) {
				continue
			}
			name := pk.Topic
			if pk.Type != rtPublish {
				name = pk.Filters[0]
			}
			if pk.ID == 0 {
				vFailf(tb, r.log.strings(60), "request %s was sent with packet identifier 0", name)
			}
			if other, dup := ids[pk.ID]; dup {
				vFailf(tb, r.log.strings(60), "packet identifier %d is used by two outstanding requests: %s and %s (counter start %#x)", pk.ID, other, name, c.Start)
			}
			ids[pk.ID] = name
			if round == 0 && pk.Type == rtPublish {
				var idx int
				fmt.Sscanf(name, "r/0/%d", &idx)
				if want := c.Reqs[idx].ID; want != 0 {
					fixed++
					if pk.ID != want {
						vFailf(tb, r.log.strings(60), "caller-chosen packet identifier %d of %s became %d on the wire", want, name, pk.ID)
					}
				}
			}
		}
		if round == 0 && c.RetryIdx > 0 && c.RetryIdx <= n && c.Reqs[c.RetryIdx-1].Kind == "pub1" {
			rtag := fmt.Sprintf("r/0/%d", c.RetryIdx-1)
			retryCancel()
			var rerr error
			select {
			case rerr = <-retryErr:
			case <-time.After(20 * time.Second):
				vFailf(tb, r.log.strings(60), "Publish %s did not return after its context ended", rtag)
			}
			re, ok := rerr.(ErrorWithRetry)
			if !ok {
				vFailf(tb, r.log.strings(60), "Publish %s interrupted by its context returned %v, which has no retry handle", rtag, rerr)
			}
			wg.Add(1)
			go func() { defer wg.Done(); _ = re.Retry(ctx, r.cli) }()
			isRe := func(pk refPacket) bool { return pk.Type == rtPublish && pk.Topic == rtag }
			if !r.peer.waitRecv(20*time.Second, isRe, 2) {
				vFailf(tb, r.log.strings(60), "the retry handle of %s did not re-send the PUBLISH", rtag)
			}
			wg.Add(1)
			go func() { defer wg.Done(); _, _ = r.cli.Subscribe(ctx, Subscription{Topic: "r/0/fresh", QoS: QoS1}) }()
			isFresh := func(pk refPacket) bool { return pk.Type == rtSubscribe && pk.Filters[0] == "r/0/fresh" }
			if !r.peer.waitRecv(20*time.Second, isFresh, 1) {
				vFailf(tb, r.log.strings(60), "the fresh request after the retransmission never reached the wire")
			}
			for _, pk := range r.peer.received()[before:] {
				if isRe(pk) && ids[pk.ID] != rtag {
					vFailf(tb, r.log.strings(60), "the retry handle of %s re-sent it with packet identifier %d, first transmission had another", rtag, pk.ID)
				}
				if isFresh(pk) {
					if pk.ID == 0 {
						vFailf(tb, r.log.strings(60), "request r/0/fresh was sent with packet identifier 0")
					}
					if other, dup := ids[pk.ID]; dup {
						vFailf(tb, r.log.strings(60), "packet identifier %d is given to r/0/fresh while %s is still outstanding with it (after %s was retransmitted on the same connection; counter start %#x)", pk.ID, other, rtag, c.Start)
					}
					r.peer.send(refPacket{Type: rtSubAck, ID: pk.ID, Codes: []int{1}})
				}
			}
			total++ // the fresh SUBSCRIBE
			total++ // the retransmitted PUBLISH
		}
		// now acknowledge everything so that the next round starts with nothing outstanding
		for _, pk := range got {
			switch pk.Type {
			case rtPublish:
				if pk.QoS == 1 {
					r.peer.send(refPacket{Type: rtPubAck, ID: pk.ID})
				} else {
					r.peer.send(refPacket{Type: rtPubRec, ID: pk.ID})
				}
			case rtSubscribe:
				r.peer.send(refPacket{Type: rtSubAck, ID: pk.ID, Codes: []int{1}})
			case rtUnsubscribe:
				r.peer.send(refPacket{Type: rtUnsubAck, ID: pk.ID})
			}
		}
		nq2 := 0
		for _, q := range c.Reqs {
			if q.Kind == "pub2" {
				nq2++
			}
		}
		relSeen := r.peer.countRecv(func(pk refPacket) bool { return pk.Type == rtPubRel })
		_ = relSeen
		if !r.peer.waitRecv(20*time.Second, func(pk refPacket) bool { return pk.Type == rtPubRel }, (round+1)*nq2) {
			vFailf(tb, r.log.strings(60), "PUBREL missing after PUBREC")
		}
		for _, pk := range r.peer.received()[before:] {
			if pk.Type == rtPubRel {
				r.peer.send(refPacket{Type: rtPubComp, ID: pk.ID})
			}
		}
		donech := make(chan struct{})
		go func() { wg.Wait(); close(donech) }()
		select {
		case <-donech:
		case <-time.After(20 * time.Second):
			vFailf(tb, map[string]interface{}{"log": r.log.strings(60), "goroutines": vGoroutineDump()}, "requests did not complete after all acknowledgements were sent")
		}
	}
	labels := []string{fmt.Sprintf("wire:callers=%d", n)}
	if fixed > 0 {
		labels = append(labels, "wire:caller-chosen-id")
	}
	vCount("C15", n >= 2, vJSON(c), labels, func() interface{} { return c })
}

func TestVerifC15_Wire(t *testing.T) {
	vRun(t, "C15", vOpts{CurFile: true}, func(rt *rapid.T) c15WireCase {
		c := c15WireCase{Start: c15GenStart(rt), Rounds: rapid.IntRange(1, 3).Draw(rt, "rounds")}
		n := rapid.IntRange(1, 16).Draw(rt, "n")
		retry := rapid.IntRange(0, 2).Draw(rt, "retry") == 0
		usedFixed := map[int]bool{}
		for i := 0; i < n; i++ {
			q := c15Req{Kind: rapid.SampledFrom([]string{"pub1", "pub2", "sub", "unsub"}).Draw(rt, "kind")}
			if (q.Kind == "pub1" || q.Kind == "pub2") && rapid.IntRange(0, 3).Draw(rt, "fix") == 0 {
				// caller-chosen id, kept outside the allocator's upcoming window and unique among the caller's own
				off := rapid.IntRange(1000, 60000).Draw(rt, "off")
				id := int(uint16(c.Start) + uint16(off))
				if id != 0 && !usedFixed[id] {
					q.ID = id
					usedFixed[id] = true
				}
			}
			c.Reqs = append(c.Reqs, q)
		}
		if retry {
			for i, q := range c.Reqs {
				if q.Kind == "pub1" {
					c.RetryIdx = i + 1 // the first QoS1 publish: everything allocated after it is still outstanding
					break
				}
			}
		}
		return c
	}, c15WireRun)
}

// ---------------------------------------------------------------------------
// (3) known limit of the scheme: one request outstanding while 65535 further ids are taken

type c15WrapCase struct {
	Start uint32 `json:"start"`
	Kind  string `json:"kind"`
}

// c15WrapRun holds one request unacknowledged, completes 65535 further requests, then
// issues one more: it must not get the identifier of the request still outstanding.
func c15WrapRun(tb rapid.TB, c c15WrapCase) {
	r := newBaseRig()
	defer r.shutdown()
	held := -1
	r.peer.auto = func(p *bpeer, pk refPacket) {
		if held < 0 && (pk.Type == rtPublish || pk.Type == rtSubscribe) {
			held = pk.ID // first request: never acknowledged
			return
		}
		bpeerBrokerAuto(p, pk)
	}
	r.connect(tb)
	atomic.StoreUint32(&r.cli.idLast, c.Start)
	ctx, cancel := context.WithCancel(context.Background())
	defer cancel()
	go func() {
		if c.Kind == "sub" {
			_, _ = r.cli.Subscribe(ctx, Subscription{Topic: "held", QoS: QoS1})
		} else {
			_ = r.cli.Publish(ctx, &Message{Topic: "held", QoS: QoS1})
		}
	}()
	if !r.peer.waitRecv(20*time.Second, func(pk refPacket) bool { return pk.Type == rtPublish || pk.Type == rtSubscribe }, 1) {
		tb.Fatalf("harness: held request not sent")
	}
	r.peer.mu.Lock()
	heldID := held
	r.peer.mu.Unlock()
	// Known finding D12 (allocation distance >= 65535): when listed as known the search stops one
	// allocation short of it, so that any collision at a smaller distance is still reported.
	allocs := 65535
	if vKnown("D12") {
		allocs = 65534
		vKnownHit("C15", "D12")
	}
	vCount("C15", true, vJSON(c), []string{fmt.Sprintf("wrap:held-while-%d-allocated", allocs)}, func() interface{} { return c })
	for i := 0; i < allocs; i++ {
		var id int
		if c.Kind == "sub" {
			if _, err := r.cli.Subscribe(ctx, Subscription{Topic: "t", QoS: QoS0}); err != nil {
				tb.Fatalf("harness: subscribe %d failed: %v", i, err)
			}
		} else {
			if err := r.cli.Publish(ctx, &Message{Topic: "t", QoS: QoS1}); err != nil {
				tb.Fatalf("harness: publish %d failed: %v", i, err)
			}
		}
		got := r.peer.received()
		id = got[len(got)-1].ID
		if id == heldID {
			vFailf(tb, nil, "identifier %d given to a new request (allocation %d after it) while the request holding it is still unacknowledged [alloc_distance>=65535]", id, i+1)
		}
		// keep the peer's record small
		r.peer.mu.Lock()
		r.peer.recv = r.peer.recv[:1]
		r.peer.recvSeq = r.peer.recvSeq[:1]
		r.peer.mu.Unlock()
		r.log.mu.Lock()
		r.log.ev = r.log.ev[:0]
		r.log.mu.Unlock()
	}
}

func TestVerifC15_Wrap(t *testing.T) {
	vRun(t, "C15", vOpts{}, func(rt *rapid.T) c15WrapCase {
		return c15WrapCase{Start: c15GenStart(rt), Kind: rapid.SampledFrom([]string{"pub", "sub"}).Draw(rt, "kind")}
	}, c15WrapRun)
}

// ---------------------------------------------------------------------------
// (4) an identifier carried to another client by a retry handle

type c15CarryCase struct {
	Start1 uint32 `json:"start1"` // counter of the client on which the request is first made
	Start2 uint32 `json:"start2"` // counter of the client on which it is retried
	Fresh  int    `json:"fresh"`  // fresh requests made on the second client while the retransmission is outstanding
}

// c15CarryRun: a QoS1 publish is interrupted on client 1 and re-issued through its retry handle on client 2 (it keeps
// its identifier X); while it is outstanding there, client 2 makes fresh requests. All outstanding identifiers on
// client 2 must differ. Known finding D18: client 2's allocator does not know X, so a counter that happens to stand
// just below X hands X out again [carry_over]; with D18 listed as known such cases are counted and not judged.
func c15CarryRun(tb rapid.TB, c c15CarryCase) {
	r1 := newBaseRig()
	defer r1.shutdown()
	r1.connect(tb)
	atomic.StoreUint32(&r1.cli.idLast, c.Start1)
	ctx1, cancel1 := context.WithCancel(context.Background())
	errCh := make(chan error, 1)
	go func() { errCh <- r1.cli.Publish(ctx1, &Message{Topic: "carried", QoS: QoS1, Payload: []byte("x")}) }()
	isPub := func(pk refPacket) bool { return pk.Type == rtPublish && pk.Topic == "carried" }
	if !r1.peer.waitRecv(20*time.Second, isPub, 1) {
		cancel1()
		tb.Fatalf("harness: first transmission not seen")
	}
	x := 0
	for _, pk := range r1.peer.received() {
		if isPub(pk) {
			x = pk.ID
		}
	}
	cancel1()
	var err error
	select {
	case err = <-errCh:
	case <-time.After(20 * time.Second):
		tb.Fatalf("harness: Publish did not return after cancel")
	}
	re, ok := err.(ErrorWithRetry)
	if !ok {
		vFailf(tb, nil, "interrupted Publish returned %v without a retry handle", err)
	}
	r2 := newBaseRig()
	defer r2.shutdown()
	r2.connect(tb)
	atomic.StoreUint32(&r2.cli.idLast, c.Start2)
	ctx, cancel := context.WithCancel(context.Background())
	defer cancel()
	var wg sync.WaitGroup
	wg.Add(1)
	go func() { defer wg.Done(); _ = re.Retry(ctx, r2.cli) }()
	if !r2.peer.waitRecv(20*time.Second, isPub, 1) {
		vFailf(tb, r2.log.strings(40), "the retry handle did not re-send the PUBLISH on the second client")
	}
	for i := 0; i < c.Fresh; i++ {
		i := i
		wg.Add(1)
		go func() {
			defer wg.Done()
			_, _ = r2.cli.Subscribe(ctx, Subscription{Topic: fmt.Sprintf("fresh/%d", i), QoS: QoS1})
		}()
	}
	isFresh := func(pk refPacket) bool { return pk.Type == rtSubscribe }
	if !r2.peer.waitRecv(20*time.Second, isFresh, c.Fresh) {
		vFailf(tb, r2.log.strings(40), "only %d of %d fresh requests reached the wire", r2.peer.countRecv(isFresh), c.Fresh)
	}
	ids := map[int]string{}
	collided := false
	var msg string
	for _, pk := range r2.peer.received() {
		name := ""
		switch {
		case isPub(pk):
			name = "carried"
			if pk.ID != x {
				vFailf(tb, r2.log.strings(40), "the retransmission carries identifier %d, the first transmission had %d", pk.ID, x)
			}
		case isFresh(pk):
			name = pk.Filters[0]
		default:
			continue
		}
		if pk.ID == 0 {
			vFailf(tb, r2.log.strings(40), "request %s was sent with packet identifier 0", name)
		}
		if other, dup := ids[pk.ID]; dup {
			if other == "carried" || name == "carried" {
				collided = true
				msg = fmt.Sprintf("identifier %d, carried over from another client by the retry handle of an outstanding request, was also given to %s (second client's counter start %#x) [carry_over]", pk.ID, name+other[:0], c.Start2)
			} else {
				vFailf(tb, r2.log.strings(40), "packet identifier %d is used by two outstanding requests: %s and %s", pk.ID, other, name)
			}
		}
		ids[pk.ID] = name
	}
	cancel()
	wg.Wait()
	if collided {
		if vKnown("D18") {
			vKnownHit("C15", "D18")
			vCount("C15", false, vJSON(c), []string{"carry:excluded-known-D18"}, func() interface{} { return c })
			return
		}
		vFailf(tb, r2.log.strings(40), "%s", msg)
	}
	vCount("C15", c.Fresh >= 1, vJSON(c), []string{fmt.Sprintf("carry:fresh=%d", c.Fresh)}, func() interface{} { return c })
}

func TestVerifC15_CarryOver(t *testing.T) {
	vRun(t, "C15", vOpts{CurFile: true}, func(rt *rapid.T) c15CarryCase {
		c := c15CarryCase{Start1: c15GenStart(rt), Fresh: rapid.IntRange(0, 6).Draw(rt, "fresh")}
		switch rapid.IntRange(0, 2).Draw(rt, "rel") {
		case 0:
			c.Start2 = c15GenStart(rt)
		case 1:
			c.Start2 = c.Start1 + uint32(rapid.IntRange(1, 40).Draw(rt, "ahead")) // just past the carried identifier
		default:
			c.Start2 = c.Start1 - uint32(rapid.IntRange(7, 40).Draw(rt, "behind")) // approaching it, but not reaching it
		}
		return c
	}, c15CarryRun)
}
