//go:build verif

package mqtt

// C04 — inbound QoS 0/1/2 flows: one hand-over per message, correct acknowledgements.
// Oracle: reference automaton producing the exact timeline of hand-overs and written acks.

import (
	"bytes"
	"context"
	"fmt"
	"runtime"
	"testing"
	"time"

	"pgregory.net/rapid"
)

type c04Step struct {
	Kind    string `json:"kind"` // q0 q1 q2 rel
	ID      int    `json:"id,omitempty"`
	Dup     bool   `json:"dup,omitempty"`
	Retain  bool   `json:"retain,omitempty"`
	Topic   string `json:"topic,omitempty"`
	Payload []byte `json:"payload,omitempty"`
}

type c04Case struct {
	Handler string `json:"handler"` // on | off | half
	HalfAt  int    `json:"halfAt,omitempty"`
	MaxRead int    `json:"maxRead,omitempty"`
	Yield   bool   `json:"yield,omitempty"`
	// HandlerCalls: what the handler does with the client from inside its callback
	// ("" nothing, "publish" a QoS0 publish, "done" Done()+Err(), "handle" re-registers itself, "mutate" overwrites
	// every field of the message it was given)
	HandlerCalls string `json:"handlerCalls,omitempty"`
	// Outbound: number of QoS2 publishes issued by another goroutine while the inbound sequence is processed
	Outbound int `json:"outbound,omitempty"`
	// End: "" the peer waits for the marker; "eof" / "eofWithData": right after its last packet the peer finishes sending
	// (half-close; the client can still write its acknowledgements), the io.EOF arriving after resp. together with the last bytes
	End string `json:"end,omitempty"`
	// Glued > 0 (handler on/off only): the first Glued packets are in the same buffer as the CONNACK (a resumed session's
	// pending messages in one TCP segment), so the reader may reach them before Connect has returned
	Glued int       `json:"glued,omitempty"`
	Steps []c04Step `json:"steps"`
}

var c04IDs = []int{1, 2, 3, 7, 255, 256, 65535}

type c04Raw struct {
	Kind   int
	ID     int
	Dup    bool
	Retain bool
	Topic  string
	Known  int
}

// c04GenSteps draws state-independent raw steps (so that rapid can delete any of them
// while shrinking) and then normalises them into what a conforming broker may send.
func c04GenSteps(rt *rapid.T, maxN int) []c04Step {
	raw := rapid.SliceOfN(rapid.Custom(func(rt *rapid.T) c04Raw {
		return c04Raw{
			Kind:   rapid.IntRange(0, 9).Draw(rt, "kind"),
			ID:     rapid.SampledFrom(c04IDs).Draw(rt, "id"),
			Dup:    rapid.IntRange(0, 3).Draw(rt, "dup") == 0,
			Retain: rapid.Bool().Draw(rt, "ret"),
			Topic:  refGenTopic(rt, "t"),
			Known:  rapid.IntRange(0, 9).Draw(rt, "known"),
		}
	}), 0, maxN).Draw(rt, "steps")
	return c04Normalise(raw)
}

func c04Normalise(raw []c04Raw) []c04Step {
	stored := map[int]c04Step{} // q2 messages the (conforming) broker has in flight
	var ever []int
	var steps []c04Step
	for i, r := range raw {
		payload := []byte(fmt.Sprintf("m%d", i))
		switch {
		case r.Kind == 0:
			steps = append(steps, c04Step{Kind: "q0", Retain: r.Retain, Topic: r.Topic, Payload: payload})
		case r.Kind <= 2:
			steps = append(steps, c04Step{Kind: "q1", ID: r.ID, Dup: r.Dup, Retain: r.Retain, Topic: r.Topic, Payload: payload})
		case r.Kind <= 6:
			if old, ok := stored[r.ID]; ok {
				// a conforming broker re-using an in-flight id is retransmitting: same content, DUP=1
				old.Dup = true
				steps = append(steps, old)
			} else {
				s := c04Step{Kind: "q2", ID: r.ID, Dup: r.Dup, Retain: r.Retain, Topic: r.Topic, Payload: payload}
				stored[r.ID] = s
				ever = append(ever, r.ID)
				steps = append(steps, s)
			}
		default:
			id := r.ID
			if len(ever) > 0 && r.Known < 8 {
				id = ever[(r.Known*7+i)%len(ever)]
				if r.Known < 4 {
					id = ever[len(ever)-1]
				}
			}
			delete(stored, id)
			steps = append(steps, c04Step{Kind: "rel", ID: id})
		}
	}
	return steps
}

func c04Gen(rt *rapid.T) c04Case {
	c := c04Case{
		Handler:      rapid.SampledFrom([]string{"on", "on", "on", "off", "half"}).Draw(rt, "handler"),
		MaxRead:      rapid.SampledFrom([]int{0, 0, 1, 2, 3, 7}).Draw(rt, "maxRead"),
		Yield:        rapid.Bool().Draw(rt, "yield"),
		HandlerCalls: rapid.SampledFrom([]string{"", "", "", "publish", "done", "handle", "mutate", "mutate"}).Draw(rt, "handlerCalls"),
		Outbound:     rapid.SampledFrom([]int{0, 0, 0, 2, 5}).Draw(rt, "outbound"),
	}
	c.Steps = c04GenSteps(rt, 40)
	c.End = rapid.SampledFrom([]string{"", "", "eof", "eofWithData"}).Draw(rt, "end")
	if rapid.IntRange(0, 3).Draw(rt, "glued") == 0 {
		c.Glued = rapid.IntRange(1, 4).Draw(rt, "gluedN")
	}
	if c.Handler == "half" {
		c.HalfAt = rapid.IntRange(0, len(c.Steps)).Draw(rt, "halfAt")
	}
	return c
}

func (s c04Step) packet() refPacket {
	switch s.Kind {
	case "q0":
		return refPacket{Type: rtPublish, QoS: 0, Retain: s.Retain, Topic: s.Topic, Payload: s.Payload}
	case "q1":
		return refPacket{Type: rtPublish, QoS: 1, ID: s.ID, Dup: s.Dup, Retain: s.Retain, Topic: s.Topic, Payload: s.Payload}
	case "q2":
		return refPacket{Type: rtPublish, QoS: 2, ID: s.ID, Dup: s.Dup, Retain: s.Retain, Topic: s.Topic, Payload: s.Payload}
	}
	return refPacket{Type: rtPubRel, ID: s.ID}
}

type c04Exp struct {
	Kind     string // H, HE, W
	Pkt      refPacket
	Optional bool
	DupAny   map[bool]bool // for q2 hand-overs: DUP may be that of any transmission
}

// c04Reference is the automaton of the property statement.
func c04Reference(steps []c04Step, handlerFrom int) (exp []c04Exp, nontrivial bool, labels []string) {
	type stored struct {
		pkt  refPacket
		dups map[bool]bool
	}
	store := map[int]*stored{}
	released := map[int]bool{}
	lbl := map[string]bool{}
	for i, s := range steps {
		h := handlerFrom >= 0 && i >= handlerFrom
		pk := s.packet()
		switch s.Kind {
		case "q0":
			if h {
				exp = append(exp, c04Exp{Kind: "H", Pkt: pk}, c04Exp{Kind: "HE"})
			}
		case "q1":
			if h {
				exp = append(exp, c04Exp{Kind: "H", Pkt: pk}, c04Exp{Kind: "HE"})
			}
			exp = append(exp, c04Exp{Kind: "W", Pkt: refPacket{Type: rtPubAck, ID: s.ID}})
		case "q2":
			exp = append(exp, c04Exp{Kind: "W", Pkt: refPacket{Type: rtPubRec, ID: s.ID}})
			if st, ok := store[s.ID]; ok {
				st.dups[s.Dup] = true
				nontrivial = true
				lbl["q2-retransmitted"] = true
			} else {
				store[s.ID] = &stored{pkt: pk, dups: map[bool]bool{s.Dup: true}}
			}
		case "rel":
			if st, ok := store[s.ID]; ok {
				if h {
					exp = append(exp, c04Exp{Kind: "H", Pkt: st.pkt, DupAny: st.dups}, c04Exp{Kind: "HE"})
				}
				exp = append(exp, c04Exp{Kind: "W", Pkt: refPacket{Type: rtPubComp, ID: s.ID}})
				delete(store, s.ID)
				released[s.ID] = true
				nontrivial = true
				lbl["q2-released"] = true
			} else {
				// unknown PUBREL: no hand-over; a PUBCOMP is permitted but not required
				exp = append(exp, c04Exp{Kind: "W", Pkt: refPacket{Type: rtPubComp, ID: s.ID}, Optional: true})
				if released[s.ID] {
					nontrivial = true
					lbl["rel-repeated"] = true
				} else {
					lbl["rel-unknown"] = true
				}
			}
		}
	}
	for l := range lbl {
		labels = append(labels, l)
	}
	return
}

func c04PktEq(a, b refPacket, dupAny map[bool]bool) bool {
	if a.Type != b.Type || a.ID != b.ID || a.QoS != b.QoS || a.Retain != b.Retain || a.Topic != b.Topic || !bytes.Equal(a.Payload, b.Payload) {
		return false
	}
	if dupAny != nil {
		return dupAny[b.Dup]
	}
	return a.Dup == b.Dup
}

// c04Compare matches the observed timeline against the expected one.
func c04Compare(exp []c04Exp, obs []vEvent) string {
	j := 0
	for i := 0; i < len(obs); i++ {
		o := obs[i]
		for {
			if j >= len(exp) {
				return fmt.Sprintf("unexpected extra event %v after the expected timeline ended", o)
			}
			e := exp[j]
			ok := e.Kind == o.Kind && (e.Kind == "HE" || (o.Pkt != nil && c04PktEq(e.Pkt, *o.Pkt, e.DupAny)))
			if ok {
				j++
				break
			}
			if e.Optional {
				j++
				continue
			}
			return fmt.Sprintf("timeline position %d: expected %s %v, observed %v", i, e.Kind, e.Pkt, o)
		}
	}
	for ; j < len(exp); j++ {
		if !exp[j].Optional {
			return fmt.Sprintf("timeline ended early: expected %s %v never happened", exp[j].Kind, exp[j].Pkt)
		}
	}
	return ""
}

// c04Drive feeds the steps to a connected client and returns the observed timeline
// (H, HE, W events excluding CONNECT and sync markers).
func c04Drive(tb rapid.TB, r *baseRig, c c04Case) ([]vEvent, bool) {
	var h Handler
	h = HandlerFunc(func(m *Message) {
		if m.Topic == vSyncTopic {
			return
		}
		pk := refPacket{Type: rtPublish, Topic: m.Topic, Payload: append([]byte{}, m.Payload...), QoS: int(m.QoS), Retain: m.Retain, Dup: m.Dup, ID: int(m.ID)}
		r.log.add(1, "H", &pk, "")
		if c.Yield {
			runtime.Gosched()
		}
		switch c.HandlerCalls {
		case "publish": // a handler that answers on the same client
			hctx, hc := context.WithTimeout(context.Background(), 20*time.Second)
			_ = r.cli.Publish(hctx, &Message{Topic: "reply", Payload: []byte("r")})
			hc()
		case "done":
			_ = r.cli.Done()
			_ = r.cli.Err()
		case "handle":
			r.cli.Handle(h)
		case "mutate":
			// the message belongs to the handler now ("ownership transferred"): a forwarding handler re-uses it
			m.ID, m.Topic, m.QoS, m.Retain, m.Dup = m.ID^0x5555, "forwarded/"+m.Topic, (m.QoS+1)%3, !m.Retain, !m.Dup
			for i := range m.Payload {
				m.Payload[i] ^= 0xFF
			}
			m.Payload = append(m.Payload, 'Z')
		}
		r.log.add(1, "HE", nil, "")
	})
	if c.Handler == "on" {
		r.cli.Handle(h)
	}
	glued := 0
	if c.Glued > 0 && c.Handler != "half" {
		glued = c.Glued
		if glued > len(c.Steps) {
			glued = len(c.Steps)
		}
		r.peer.mu.Lock()
		r.peer.auto = func(p *bpeer, pk refPacket) {
			if pk.Type != rtConnect {
				bpeerDefaultAuto(p, pk)
				return
			}
			buf := refEncode(refPacket{Type: rtConnAck})
			p.log.add(p.conn.id, "B", &refPacket{Type: rtConnAck}, "")
			for i := 0; i < glued; i++ {
				pk := c.Steps[i].packet()
				p.log.add(p.conn.id, "B", &pk, "in the CONNACK's buffer")
				buf = append(buf, refEncode(pk)...)
			}
			p.conn.peerSend(buf)
		}
		r.peer.mu.Unlock()
	}
	r.connect(tb)
	if glued > 0 {
		r.peer.mu.Lock()
		r.peer.auto = nil
		r.peer.mu.Unlock()
	}
	r.conn.mu.Lock()
	r.conn.maxRead = c.MaxRead
	r.conn.mu.Unlock()
	if c.Outbound > 0 {
		// the application publishes QoS2 messages meanwhile: its PUBREL shares the wire with the reader's acknowledgements
		r.peer.mu.Lock()
		r.peer.auto = bpeerBrokerAuto
		r.peer.mu.Unlock()
		outDone := make(chan struct{})
		go func() {
			defer close(outDone)
			for k := 0; k < c.Outbound; k++ {
				octx, oc := context.WithTimeout(context.Background(), 20*time.Second)
				// the application's own QoS2 publishes use identifiers from the same small set as the inbound ones:
				// the two directions have separate identifier spaces and must not disturb each other
				_ = r.cli.Publish(octx, &Message{Topic: "out", QoS: QoS2, Payload: []byte("o"), ID: uint16(c04IDs[k%len(c04IDs)])})
				oc()
			}
		}()
		defer func() { <-outDone }()
	}
	for i, s := range c.Steps {
		if i < glued {
			continue // already sent, behind the CONNACK
		}
		if c.Handler == "half" && i == c.HalfAt {
			if !r.peer.sync(20 * time.Second) {
				return nil, false
			}
			r.cli.Handle(h)
		}
		r.peer.send(s.packet())
	}
	if c.Handler == "half" && c.HalfAt == len(c.Steps) {
		r.peer.sync(20 * time.Second)
		r.cli.Handle(h)
	}
	if c.End != "" {
		r.conn.mu.Lock()
		r.conn.eofWithData = c.End == "eofWithData"
		r.conn.mu.Unlock()
		r.conn.peerHalfClose()
		select {
		case <-r.cli.Done():
		case <-time.After(20 * time.Second):
			return nil, false
		}
	} else if !r.peer.sync(20 * time.Second) {
		return nil, false
	}
	var obs []vEvent
	for _, e := range r.log.snapshot() {
		switch e.Kind {
		case "H", "HE":
			obs = append(obs, e)
		case "W":
			if e.Pkt.Type == rtConnect || vIsSyncPkt(*e.Pkt) {
				continue
			}
			if e.Pkt.Type == rtPublish || e.Pkt.Type == rtPubRel {
				continue // the application's own outbound traffic (handler replies, concurrent publisher)
			}
			obs = append(obs, e)
		}
	}
	return obs, true
}

func c04Run(tb rapid.TB, c c04Case) {
	r := newBaseRig()
	defer r.shutdown()
	obs, ok := c04Drive(tb, r, c)
	from := -1
	switch c.Handler {
	case "on":
		from = 0
	case "half":
		from = c.HalfAt
	}
	exp, nontrivial, labels := c04Reference(c.Steps, from)
	labels = append(labels, "handler:"+c.Handler)
	vCount("C04", nontrivial, vJSON(c), labels, func() interface{} { return c })
	if !ok {
		vFailf(tb, r.log.strings(80), "the client stopped processing well-formed inbound packets (sync marker not acknowledged); Err()=%v", r.cli.Err())
	}
	if msg := c04Compare(exp, obs); msg != "" {
		vFailf(tb, r.log.strings(120), "%s", msg)
	}
	if r.peer.frameErr != nil {
		vFailf(tb, r.log.strings(80), "client wrote an ill-formed acknowledgement stream: %v", r.peer.frameErr)
	}
}

func TestVerifC04_Flows(t *testing.T) {
	vRun(t, "C04", vOpts{CurFile: true}, c04Gen, c04Run)
}

func FuzzVerifC04(f *testing.F) {
	f.Fuzz(rapid.MakeFuzz(func(rt *rapid.T) {
		c := c04Gen(rt)
		vSetCurrent("C04", "TestVerifC04_Flows", c, false)
		c04Run(rt, c)
	}))
}
