#!/bin/sh
# runs every thorough check once, sequentially (each one uses all cores); log in build/thorough.log
cd /verif
for p in C14 C19 C20 C04 C05 C06 C07 C15 C11 C13 C16 C10 C01 C02 C03 C12 C08 C17 C18 C09; do
  /usr/bin/time -f "%es" ./check $p --tier thorough 2>&1 | tail -4
done
