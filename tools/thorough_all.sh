#!/bin/sh
# runs every thorough check once per seed, sequentially (each one uses all cores); log in build/thorough.log
cd /verif
for seed in "$@"; do
for p in C07 C13 C02 C08 C17 C18 C09 C01 C03 C12 C16 C10 C11 C15 C04 C05 C06 C14 C19 C20; do
  VERIF_SEED=$seed /usr/bin/time -f "%es" ./check $p --tier thorough 2>&1 | tail -4
done
done
