#!/usr/bin/env python3
"""Regenerates /verif/MANIFEST.json from checks_config.py (single source of truth)."""
import json, os, sys
V = os.path.dirname(os.path.dirname(os.path.abspath(__file__)))
sys.path.insert(0, V)
from checks_config import PROPS, MANIFEST_TEXT, NOT_APPLICABLE  # noqa

props = [json.loads(l)["id"] for l in open(os.path.join(V, "properties.jsonl"))]
checks = []
for pid in props:
    if pid not in PROPS:
        continue
    m = MANIFEST_TEXT[pid]
    checks.append({
        "property_id": pid,
        "quick_cmd": "./check %s --tier quick" % pid,
        "thorough_cmd": "./check %s --tier thorough" % pid,
        "evidence_file": "/verif/evidence/%s.json" % pid,
        "replay_cmd_template": "./check %s --replay {path}" % pid,
        "engine": m["engine"],
        "level_claimed": {"category": PROPS[pid]["level"], "text": m["text"], "design_ref": m["design_ref"]},
        "level_note": m["note"],
        "technique": m["technique"],
    })
na = [{"property_id": p, "reason": NOT_APPLICABLE.get(p, "check not built yet (work in progress; see DESIGN.md section 8)")}
      for p in props if p not in PROPS]
man = {
    "version": 1,
    "setup_cmd": "./check --setup",
    "hooks": {
        "guard": "verif",
        "enable": "go test -c -tags verif -overlay=<harness files from /verif/harness mapped into package mqtt> -modfile=<go.mod + rapid>; "
                  "the harness is overlaid at build time; one add-only observation hook (verif_hook.go / verif_hook_off.go, four verifPoint calls in reconnclient.go)",
        "baseline_off_cmd": "cd /repo && go test -vet=off -count=1 -timeout 25m ./...",
        "source_commits": ["f22e6f8", "2cb27cb"],
        "add_only": True,
    },
    "engines": [
        {"name": "harness", "path": "/verif/harness", "serves_properties": [c["property_id"] for c in checks],
         "kind_free_text": "in-package Go test harness (rapid v1.3.0 generators, native go fuzzing, reference codec, in-memory transport, "
                           "broker model, scripted peer) overlaid onto /repo at build time; python3 driver ./check"},
    ],
    "checks": checks,
    "not_applicable": na,
    "notes": "All checks are property-based tests / fuzzing with explicit oracles; see DESIGN.md. exit 2 = inconclusive.",
}
json.dump(man, open(os.path.join(V, "MANIFEST.json"), "w"), indent=1)
print("MANIFEST.json: %d checks, %d not_applicable" % (len(checks), len(na)))
