#!/usr/bin/env python3
"""Print the markdown table of one seeding round from seeded/<id>/meta.json.  usage: tools/seed_table.py r3"""
import json, glob, os, sys
V = os.path.dirname(os.path.dirname(os.path.abspath(__file__)))
rnd = sys.argv[1]
print("| seed | change | needs | demo fails with / without | missed at first | our checks |")
print("|---|---|---|---|---|---|")
for p in sorted(glob.glob(os.path.join(V, "seeded", "*-%s-*" % rnd, "meta.json"))):
    d = json.load(open(p)); name = p.split("/")[-2]
    last = {}
    for k, v in d.get("checks", {}).items():
        last[k] = v["verdict"]
    checks = "; ".join("%s: %s" % (k, v) for k, v in sorted(last.items()))
    demo = d.get("demo", {})
    print("| %s | %s | %s | %s / %s | %s | %s |" % (name, d.get("what_was_changed", ""), d.get("needs_to_manifest", ""), demo.get("fails_with_change", "?"), demo.get("fails_without_change", "?"),
          "yes" if d.get("missed_in_first_evaluation") else "no", checks))
