#!/opt/veriftools/pyvenv/bin/python
import json, jsonschema, glob, sys
ok = True
jsonschema.validate(json.load(open('/verif/MANIFEST.json')), json.load(open('/root/.vp/MANIFEST.schema.json')))
es = json.load(open('/root/.vp/EVIDENCE.schema.json'))
for f in sorted(glob.glob('/verif/evidence/*.json')):
    try:
        jsonschema.validate(json.load(open(f)), es)
    except Exception as e:
        ok = False
        print("INVALID", f, str(e)[:300])
print("valid" if ok else "INVALID")
sys.exit(0 if ok else 1)
