#!/usr/bin/env python3
"""Sensitivity tool: apply a change to a scratch copy of /repo and run a check against it.

  tools/mutate.py <ID>[,<ID>...] --patch file.diff [--tier quick|thorough] [--no-baseline]
  tools/mutate.py <ID> --sub <file> <old> <new> [--sub ...]

The scratch copy lives under /tmp and is removed afterwards. Prints KILLED / SURVIVED per property.
"""
import os, sys, subprocess, tempfile, shutil, time
V = os.path.dirname(os.path.dirname(os.path.abspath(__file__)))
args = sys.argv[1:]
ids = args[0].split(","); args = args[1:]
subs = []; patch = None; tier = "quick"; baseline = True; keep = False
while args:
    a = args.pop(0)
    if a == "--sub":
        subs.append((args.pop(0), args.pop(0), args.pop(0)))
    elif a == "--patch":
        patch = os.path.abspath(args.pop(0))
    elif a == "--tier":
        tier = args.pop(0)
    elif a == "--no-baseline":
        baseline = False
    else:
        sys.exit("bad arg " + a)
tmp = tempfile.mkdtemp(prefix="vmut.")
try:
    dst = os.path.join(tmp, "repo")
    subprocess.check_call(["rsync", "-a", "--exclude", ".git", "/repo/", dst + "/"])
    if patch:
        subprocess.check_call(["patch", "-p1", "-s", "-i", patch], cwd=dst)
    for f, old, new in subs:
        p = os.path.join(dst, f); s = open(p).read()
        if s.count(old) != 1:
            sys.exit("substitution target occurs %d times in %s" % (s.count(old), f))
        open(p, "w").write(s.replace(old, new))
    env = dict(os.environ, GOFLAGS="-mod=mod", GOPROXY="off", GOSUMDB="off", GOTOOLCHAIN="local")
    if baseline:
        r = subprocess.run(["go", "test", "-vet=off", "-count=1", "."], cwd=dst, env=env, stdout=subprocess.PIPE, stderr=subprocess.STDOUT, text=True)
        print("baseline:", "PASS" if r.returncode == 0 else "FAIL\n" + r.stdout[-1500:])
    env["VERIF_REPO"] = dst
    for pid in ids:
        t0 = time.time()
        r = subprocess.run([os.path.join(V, "check"), pid, "--tier", tier], cwd=V, env=env, stdout=subprocess.PIPE, stderr=subprocess.STDOUT, text=True)
        verdict = {0: "SURVIVED", 1: "KILLED", 2: "INCONCLUSIVE"}.get(r.returncode, "?")
        print("%s %s (%.1fs)" % (pid, verdict, time.time() - t0))
        lines = [l for l in r.stdout.splitlines() if l.startswith("VIOLATION") or l.startswith("  ") or l.startswith("INCONCLUSIVE") or l.startswith("BUILD")]
        print("\n".join(lines[:8]))
finally:
    shutil.rmtree(tmp, ignore_errors=True)
