#!/usr/bin/env python3
"""Development helper: build the harness (plain or -race) and run tests by regex.
usage: tools/dev.py [--race] [--repo DIR] <regex> [test-binary args...]"""
import os, sys, subprocess, importlib.machinery, importlib.util
V = os.path.dirname(os.path.dirname(os.path.abspath(__file__)))
args = sys.argv[1:]
race = False
while args and args[0].startswith("--"):
    if args[0] == "--race":
        race = True; args = args[1:]
    elif args[0] == "--repo":
        os.environ["VERIF_REPO"] = args[1]; args = args[2:]
    else:
        break
loader = importlib.machinery.SourceFileLoader("check", os.path.join(V, "check"))
spec = importlib.util.spec_from_loader("check", loader)
chk = importlib.util.module_from_spec(spec); loader.exec_module(chk)
class WD(chk.Workdir):
    def __init__(self, name):
        self.root = os.path.join(V, "build", name)
        for d in ("bin", "run", "fail", "stats"):
            os.makedirs(os.path.join(self.root, d), exist_ok=True)
wd = WD("dev")
chk.write_build_files(wd)
b = chk.build(wd, race)
if not b:
    sys.exit(2)
env = chk.goenv()
env.setdefault("VERIF_FAILDIR", wd.path("fail"))
env.setdefault("VERIF_STATS", wd.path("stats", "dev.json"))
rundir = wd.path("run"); 
cmd = [b, "-test.run", args[0]] + args[1:]
sys.exit(subprocess.call(cmd, cwd=rundir, env=env))
