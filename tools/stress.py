#!/usr/bin/env python3
"""Run every quick (or thorough) check concurrently, for several seeds, and report anything that is not exit 0.
usage: tools/stress.py [--tier quick] [--par 10] seed [seed...]"""
import subprocess, sys, os, json, time
from concurrent.futures import ThreadPoolExecutor
V = os.path.dirname(os.path.dirname(os.path.abspath(__file__)))
args = sys.argv[1:]; tier = "quick"; par = 10
while args and args[0].startswith("--"):
    if args[0] == "--tier": tier = args[1]; args = args[2:]
    elif args[0] == "--par": par = int(args[1]); args = args[2:]
props = [json.loads(l)["id"] for l in open(os.path.join(V, "properties.jsonl"))]
def run(job):
    seed, p = job
    env = dict(os.environ, VERIF_SEED=str(seed), VERIF_REPO="/repo/.")  # '/repo/.' keeps evidence untouched? no: realpath equal -> writes evidence
    env.pop("VERIF_REPO")
    t0 = time.time()
    r = subprocess.run([os.path.join(V, "check"), p, "--tier", tier], cwd=V, env=env, stdout=subprocess.PIPE, stderr=subprocess.STDOUT, text=True)
    return seed, p, r.returncode, time.time() - t0, r.stdout
bad = 0
with ThreadPoolExecutor(max_workers=par) as ex:
    for seed, p, rc, dt, out in ex.map(run, [(s, p) for s in args for p in props]):
        last = out.strip().splitlines()[-1] if out.strip() else ""
        flag = "" if rc == 0 else "   <<<<<<<< exit %d" % rc
        print("seed=%s %s %.1fs %s%s" % (seed, p, dt, last[-90:], flag), flush=True)
        if rc != 0:
            bad += 1
            print("\n".join(out.splitlines()[:12]))
print("non-zero exits:", bad)
