#!/usr/bin/env python3
"""Runs every mutant of mutants/mutants.json against its properties' quick check (in scratch copies of /repo)
and writes mutants/RESULTS.md. usage: tools/run_mutants.py [--par N] [id-prefix ...]"""
import json, os, subprocess, sys, tempfile, shutil, time
from concurrent.futures import ThreadPoolExecutor
V = os.path.dirname(os.path.dirname(os.path.abspath(__file__)))
args = sys.argv[1:]; par = 5
if args[:1] == ["--par"]:
    par = int(args[1]); args = args[2:]
muts = json.load(open(os.path.join(V, "mutants", "mutants.json")))
if args:
    muts = [m for m in muts if any(m["id"].startswith(a) for a in args)]
env0 = dict(os.environ, GOFLAGS="-mod=mod", GOPROXY="off", GOSUMDB="off", GOTOOLCHAIN="local")

def run(m):
    tmp = tempfile.mkdtemp(prefix="vmut.")
    try:
        dst = os.path.join(tmp, "repo")
        subprocess.check_call(["rsync", "-a", "--exclude", ".git", "/repo/", dst + "/"])
        if m.get("patch"):
            r = subprocess.run(["patch", "-p1", "-s", "-i", os.path.join(V, "mutants", m["patch"])], cwd=dst, stdout=subprocess.PIPE, stderr=subprocess.STDOUT, text=True)
            if r.returncode != 0:
                return m, "PATCH-FAILED", None, []
        for f, old, new in m.get("subs", []):
            p = os.path.join(dst, f); s = open(p).read()
            if s.count(old) != 1:
                return m, "SUB-NOT-FOUND(%s)" % f, None, []
            open(p, "w").write(s.replace(old, new))
        b = subprocess.run(["go", "test", "-vet=off", "-count=1", "."], cwd=dst, env=env0, stdout=subprocess.PIPE, stderr=subprocess.STDOUT, text=True)
        baseline = "pass" if b.returncode == 0 else "FAIL"
        res = []
        env = dict(env0, VERIF_REPO=dst)
        for pid in m["props"]:
            t0 = time.time()
            r = subprocess.run([os.path.join(V, "check"), pid, "--tier", "quick"], cwd=V, env=env, stdout=subprocess.PIPE, stderr=subprocess.STDOUT, text=True)
            verdict = {0: "SURVIVED", 1: "KILLED", 2: "INCONCLUSIVE"}.get(r.returncode, "?")
            first = ""
            for l in r.stdout.splitlines():
                if l.startswith("  ") and not first:
                    first = l.strip()[:160]
            res.append((pid, verdict, time.time() - t0, first))
        return m, "ok", baseline, res
    finally:
        shutil.rmtree(tmp, ignore_errors=True)

rows = []
with ThreadPoolExecutor(max_workers=par) as ex:
    for m, st, baseline, res in ex.map(run, muts):
        if st != "ok":
            print(m["id"], st); rows.append((m, st, "", []))
            continue
        for pid, verdict, dt, first in res:
            print("%-24s %-4s %-12s %5.1fs baseline=%s  %s" % (m["id"], pid, verdict, dt, baseline, first), flush=True)
        rows.append((m, st, baseline, res))
out = ["# Mutant results (tools/run_mutants.py, quick tier, default seed)", "",
       "Each mutant is applied to a scratch copy of /repo; 'baseline' is the library's own 113-test suite on that copy.", "",
       "| mutant | what | baseline suite | property | verdict | time | first violation line |", "|---|---|---|---|---|---|---|"]
for m, st, baseline, res in rows:
    if st != "ok":
        out.append("| %s | %s | - | - | %s | | |" % (m["id"], m["note"], st)); continue
    for pid, verdict, dt, first in res:
        out.append("| %s | %s | %s | %s | %s | %.0fs | %s |" % (m["id"], m["note"], baseline, pid, verdict, dt, first.replace("|", "\\|")))
if not args:
    open(os.path.join(V, "mutants", "RESULTS.md"), "w").write("\n".join(out) + "\n")
