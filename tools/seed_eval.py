#!/usr/bin/env python3
"""Validate a seeded change delivered by a sub-agent and run our checks against it.
usage: tools/seed_eval.py <PROP> <k> [--checks C01,C03] [--tier quick] [--seeds 1,2]
Reads /tmp/seed-<PROP>-out/change<k>.diff, demo<k>_test.go, change<k>.md.
Writes /verif/seeded/<PROP>-<k>/{patch.diff,demo_test.go,notes.md,meta.json}."""
import os, sys, subprocess, tempfile, shutil, json, re, time
V = os.path.dirname(os.path.dirname(os.path.abspath(__file__)))
prop, k = sys.argv[1], sys.argv[2]
args = sys.argv[3:]
checks = [prop]; tier = "quick"; seeds = ["1"]
while args:
    a = args.pop(0)
    if a == "--checks": checks = args.pop(0).split(",")
    elif a == "--tier": tier = args.pop(0)
    elif a == "--seeds": seeds = args.pop(0).split(",")
rnd = os.environ.get("SEED_ROUND", "")
src = "/tmp/seed%s-%s-out" % (rnd, prop)
diff = os.path.join(src, "change%s.diff" % k); demo = os.path.join(src, "demo%s_test.go" % k); notes = os.path.join(src, "change%s.md" % k)
env = dict(os.environ, GOFLAGS="-mod=mod", GOPROXY="off", GOSUMDB="off", GOTOOLCHAIN="local")
tmp = tempfile.mkdtemp(prefix="vseed.")
meta = {"property": prop, "change": int(k), "files_changed": sorted(set(re.findall(r"^\+\+\+ b/(\S+)", open(diff).read(), re.M)))}
try:
    clean = os.path.join(tmp, "clean"); mut = os.path.join(tmp, "mut")
    for d in (clean, mut):
        subprocess.check_call(["rsync", "-a", "--exclude", ".git", "/repo/", d + "/"])
    r = subprocess.run(["patch", "-p1", "-s", "-i", diff], cwd=mut, stdout=subprocess.PIPE, stderr=subprocess.STDOUT, text=True)
    meta["patch_applies"] = r.returncode == 0
    if r.returncode != 0:
        print("PATCH FAILED", r.stdout); sys.exit(1)
    b = subprocess.run(["go", "test", "-vet=off", "-count=1", "."], cwd=mut, env=env, stdout=subprocess.PIPE, stderr=subprocess.STDOUT, text=True)
    meta["baseline_suite_with_change"] = "pass" if b.returncode == 0 else "FAIL"
    print("baseline with change:", meta["baseline_suite_with_change"])
    tests = re.findall(r"^func (Test\w+)\(", open(demo).read(), re.M)
    runre = "^(" + "|".join(tests) + ")$"
    def rundemo(d, n=3):
        shutil.copy(demo, os.path.join(d, "zz_seed_demo_test.go"))
        fails = 0
        for i in range(n):
            r = subprocess.run(["go", "test", "-vet=off", "-count=1", "-run", runre, "."], cwd=d, env=env, stdout=subprocess.PIPE, stderr=subprocess.STDOUT, text=True, timeout=300)
            if r.returncode != 0: fails += 1
        os.remove(os.path.join(d, "zz_seed_demo_test.go"))
        return fails, n
    f1, n1 = rundemo(mut); f0, n0 = rundemo(clean)
    meta["demo"] = {"tests": tests, "fails_with_change": "%d/%d" % (f1, n1), "fails_without_change": "%d/%d" % (f0, n0)}
    print("demo: fails with change %d/%d, without %d/%d" % (f1, n1, f0, n0))
    meta["confirmed"] = b.returncode == 0 and f1 == n1 and f0 == 0
    res = {}
    envc = dict(env, VERIF_REPO=mut)
    for c in checks:
        for s in seeds:
            envc["VERIF_SEED"] = s
            t0 = time.time()
            r = subprocess.run([os.path.join(V, "check"), c, "--tier", tier], cwd=V, env=envc, stdout=subprocess.PIPE, stderr=subprocess.STDOUT, text=True)
            verdict = {0: "SURVIVED", 1: "KILLED", 2: "INCONCLUSIVE"}.get(r.returncode, "?")
            first = next((l.strip()[:220] for l in r.stdout.splitlines() if l.startswith("  ")), "")
            res["%s/%s/seed%s" % (c, tier, s)] = {"verdict": verdict, "wall_s": round(time.time() - t0, 1), "first_violation": first}
            print(c, "seed", s, verdict, "%.0fs" % (time.time() - t0), first)
    meta["checks"] = res
    meta["ran"] = "tools/seed_eval.py %s %s --checks %s --tier %s --seeds %s" % (prop, k, ",".join(checks), tier, ",".join(seeds))
    out = os.path.join(V, "seeded", "%s-%s%s" % (prop, ("r%s-" % rnd) if rnd else "", k)); os.makedirs(out, exist_ok=True)
    shutil.copy(diff, os.path.join(out, "patch.diff")); shutil.copy(demo, os.path.join(out, "demo_test.go"))
    if os.path.exists(notes): shutil.copy(notes, os.path.join(out, "notes.md"))
    old = {}
    mp = os.path.join(out, "meta.json")
    if os.path.exists(mp):
        old = json.load(open(mp))
        allc = old.get("checks", {}); allc.update(res); meta["checks"] = allc
        for key in old:
            if key not in meta: meta[key] = old[key]
    json.dump(meta, open(mp, "w"), indent=1)
finally:
    shutil.rmtree(tmp, ignore_errors=True)
